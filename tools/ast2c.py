#!/usr/bin/env python3
"""ast2c: mechanical extraction of string_theory functions from clang's JSON AST to C11.

Input : one `clang++ -Xclang -ast-dump=json -Xclang -ast-dump-filter=ST` dump of
        /verif/instantiate/tu.cpp against /repo's current working tree.
Output: C text of the selected functions (templates instantiated by clang, `auto`
        resolved, overloads resolved by declaration id), with contract / loop
        markers that the splicer (spec.py) fills from /verif/contracts/*.spec.

What is dropped or rewritten is listed in DESIGN.md section 2.3.  Anything the
translator does not know raises Unsupported; the driver turns that into exit
status 2 ("undecided: extraction"), never into a verdict.
"""
import json, re, sys, os, hashlib

class Unsupported(Exception):
    pass

def load_objs(path):
    dec = json.JSONDecoder(); s = open(path).read(); i = 0; objs = []
    while True:
        j = s.find('{', i)
        if j < 0: break
        o, k = dec.raw_decode(s, j); objs.append(o); i = k
    return objs

# ---------------------------------------------------------------------------
# names and types
# ---------------------------------------------------------------------------
def cident(q):
    q = q.replace('(anonymous namespace)::', '').replace('(anonymous)', 'anon')
    q = q.replace('_ST_PRIVATE::', 'stp_').replace('ST::', 'ST_')
    q = q.replace('unsigned ', 'u')
    q = re.sub(r'<([^<>]*)>', lambda m: '_' + re.sub(r'\W+', '_', m.group(1)).strip('_'), q)
    q = q.replace('operator==', 'op_eq').replace('operator!=', 'op_ne').replace('operator<<', 'op_shl') \
         .replace('operator+=', 'op_addeq').replace('operator+', 'op_add').replace('operator=', 'op_assign') \
         .replace('operator<', 'op_lt').replace('operator[]', 'op_index').replace('operator()', 'op_call') \
         .replace('operator>>', 'op_shr').replace('operator>', 'op_gt').replace('operator""', 'op_lit') \
         .replace('operator bool', 'op_bool')
    q = q.replace('~', 'dtor_')
    return re.sub(r'\W+', '_', q).strip('_')

BASIC = [('bool', '_Bool'), ('char8_t', 'unsigned char'), ('char16_t', 'uint16_t'), ('char32_t', 'uint32_t'), ('wchar_t', 'int32_t'),
         ('std::size_t', 'size_t'), ('ST_ssize_t', 'ssize_t'), ('std::ptrdiff_t', 'ptrdiff_t'),
         ('std::FILE', 'FILE'), ('std::nullptr_t', 'void *'), ('uintmax_t', 'uintmax_t')]

TYPE_ALIASES = {
    'ST::char_buffer': 'ST::buffer<char>', 'ST::wchar_buffer': 'ST::buffer<wchar_t>',
    'ST::utf16_buffer': 'ST::buffer<char16_t>', 'ST::utf32_buffer': 'ST::buffer<char32_t>',
    'std::vector<string>': 'std::vector<ST::string>', 'std::vector<ST::string, std::allocator<ST::string>>': 'std::vector<ST::string>',
    'std::vector<ST::string, std::allocator<ST::string> >': 'std::vector<ST::string>',
    'char_buffer': 'ST::buffer<char>', 'wchar_buffer': 'ST::buffer<wchar_t>',
    'utf16_buffer': 'ST::buffer<char16_t>', 'utf32_buffer': 'ST::buffer<char32_t>',
}

def norm_class(t):
    """canonical qualified class name used as key in Index.records"""
    t = t.strip()
    t = re.sub(r'\b(const|volatile|class|struct)\b', '', t).strip()
    t = TYPE_ALIASES.get(t, t)
    t = re.sub(r'\s+', ' ', t)
    return t

class Types:
    def __init__(self, ix): self.ix = ix
    def name(self, t):
        """map a C++ type (no declarator suffix) to C"""
        t = t.strip()
        t = re.sub(r'\bstd::char_traits<([\w ]+)>::char_type\b', r'\1', t)
        t = re.sub(r'\btypename\s+', '', t)
        cv = ''
        m = re.match(r'^((?:const|volatile)\s+)+(.*)$', t)
        if m: cv = 'const ' if 'const' in m.group(0)[:len(m.group(0)) - len(m.group(2))] else ''; t = m.group(2)
        m = re.match(r'^(.*?)\s+(const)$', t)
        if m: cv = 'const '; t = m.group(1)
        t = re.sub(r'^(class|struct|enum)\s+', '', t)
        for cand in (t, 'ST::' + t, '_ST_PRIVATE::' + t):
            if cand in self.ix.typedefs and self.ix.typedefs[cand] != t:
                return self.name(cv + self.ix.typedefs[cand])
        key = norm_class(t)
        for cand in (key, 'ST::' + key, '_ST_PRIVATE::' + key):
            if cand in self.ix.records:
                self.ix.need_record(cand)
                return cv + 'struct ' + cident(cand)
            if cand in self.ix.enumdecls:
                self.ix.need_enum(cand)
                return cv + cident(cand)
        for a, b in BASIC:
            t = re.sub(r'(?<![\w:])' + re.escape(a) + r'(?![\w:])', b, t)
        mo = OSTREAM_RE.match(t)
        if mo: return cv + 'struct std_ostream_' + cident(mo.group(1))
        if t in ('std::basic_string<char>', 'std::string'): raise Unsupported('type std::string')
        if '<' in t or '::' in t: raise Unsupported('type ' + t)
        return cv + t
    def decl(self, qt, name):
        """C declaration of `name` with C++ type qt; returns (text, isref)"""
        qt = qt.strip()
        if '(' in qt: raise Unsupported('function/pointer-to-function type ' + qt)
        m = re.match(r'^(.*?)\s*((?:\[\d*\])+)$', qt)
        arr = ''
        if m: qt, arr = m.group(1), m.group(2)
        isref = False
        if qt.endswith('&&'): qt = qt[:-2].strip(); isref = True
        elif qt.endswith('&'): qt = qt[:-1].strip(); isref = True
        stars = ''
        while True:
            m = re.match(r'^(.*?)(\*\s*(?:const|volatile|__restrict)?)\s*$', qt)
            if not m: break
            qt = m.group(1).strip()
            stars = ('* const ' if 'const' in m.group(2) else '*') + stars
        core = re.sub(r'\b(const|volatile)\b', '', qt).strip()
        core = re.sub(r'^(class|struct|enum|typename)\s+', '', core)
        for cand in (core, 'ST::' + core, '_ST_PRIVATE::' + core):
            if cand in self.ix.typedefs and self.ix.typedefs[cand] != core:
                under = self.ix.typedefs[cand]
                if under.rstrip().endswith(('*', '&', ']')) or '*' in under:
                    # typedef of a pointer type: re-parse the whole declarator with the expansion in place
                    cvq = 'const ' if re.search(r'\bconst\b', qt) and not under.rstrip().endswith('*') else ''
                    full = cvq + under + ' ' + stars.replace(' ', '') + (' &' if isref else '') + arr
                    if re.search(r'\bconst\b', qt) and under.rstrip().endswith('*'): full = under + ' const ' + stars.replace(' ', '') + (' &' if isref else '') + arr
                    return self.decl(full, name)
                break
        base = self.name(qt)
        if isref: stars = stars + '*'
        return re.sub(r'\s+', ' ', '%s %s%s%s' % (base, stars, name, arr)).strip(), isref
    def cast(self, qt):
        return self.decl(qt, '')[0].strip()

def strip_enable_if(t):
    """'typename std::enable_if<COND, T>::type' -> 'T' (an instantiated function was selected, so COND held)"""
    while True:
        i = t.find('std::enable_if<')
        if i < 0: return t
        j = i + len('std::enable_if<'); d = 1; k = j; lastcomma = None
        while k < len(t) and d > 0:
            if t[k] in '<(': d += 1
            elif t[k] in '>)': d -= 1
            elif t[k] == ',' and d == 1: lastcomma = k
            k += 1
        inner_t = t[lastcomma + 1:k - 1].strip() if lastcomma else 'void'
        rest = t[k:]
        if rest.startswith('::type'): rest = rest[len('::type'):]
        pre = t[:i]
        pre = re.sub(r'typename\s+$', '', pre)
        t = pre + inner_t + rest

def split_fn_type(fn_type):
    """'R (A, B) const noexcept' -> (R, [A,B], trailing)"""
    fn_type = strip_enable_if(fn_type)
    depth = 0; start = None
    for i, ch in enumerate(fn_type):
        if ch == '(':
            if depth == 0: start = i
            depth += 1
        elif ch == ')':
            depth -= 1
            if depth == 0:
                inner = fn_type[start + 1:i]; ret = fn_type[:start].strip(); trail = fn_type[i + 1:]; break
    else:
        raise Unsupported('fn type ' + fn_type)
    ps = []; d = 0; cur = ''
    for ch in inner:
        if ch in '(<': d += 1
        if ch in ')>': d -= 1
        if ch == ',' and d == 0: ps.append(cur.strip()); cur = ''
        else: cur += ch
    if cur.strip() and cur.strip() != 'void': ps.append(cur.strip())
    return ret, ps, trail

ABBR = [('unsigned long long', 'ull'), ('long long', 'll'), ('unsigned long', 'ul'), ('unsigned int', 'u'), ('unsigned short', 'us'),
        ('unsigned char', 'uc'), ('signed char', 'sc'), ('size_t', 'sz'), ('ST_ssize_t', 'ssz'), ('char16_t', 'c16'), ('char32_t', 'c32'),
        ('char8_t', 'c8'), ('wchar_t', 'wc'), ('long double', 'ld'), ('double', 'd'), ('float', 'f'), ('short', 's'), ('long', 'l'), ('int', 'i'), ('bool', 'b'), ('char', 'c'), ('void', 'v')]
def abbrev(pt):
    t = pt.strip(); pre = ''
    if t.endswith('&&'): pre = 'x'; t = t[:-2]
    elif t.endswith('&'): pre = 'r'; t = t[:-1]
    n = t.count('*'); t = t.replace('*', '')
    t = re.sub(r'\b(const|volatile|class|struct|enum|typename)\b', '', t).strip()
    t = TYPE_ALIASES.get(t, t)
    t = t.replace('_ST_PRIVATE::', '').replace('ST::', '').replace('std::', 'std_')
    for a, b in ABBR:
        t = re.sub(r'(?<![\w])' + re.escape(a) + r'(?![\w])', b, t)
    t = re.sub(r'\W+', '', t)
    return pre + 'p' * n + t

VECQ = 'std::vector<ST::string>'
OSTREAM_RE = re.compile(r'^std::basic_ostream<\s*(\w+)\s*(?:,\s*(?:std::)?char_traits<\s*\w+\s*>\s*)?>$')
NOTHROW_EXTERNALS = ('copy', 'move', 'assign', 'compare', 'find', 'length', 'lt', 'eq')
LIBC = ('strtol', 'strtoll', 'strtoul', 'strtoull', 'strtod', 'strtof', 'snprintf', 'fwrite', 'fputc', 'abort', 'fprintf', 'memcpy', 'memset', 'memchr', 'strlen')

# ---------------------------------------------------------------------------
# index of declarations
# ---------------------------------------------------------------------------
class Index:
    def __init__(self):
        self.funcs = {}      # id -> (qualname, node, classqual or None)
        self.byname = {}     # qualname -> [ids] (definitions first)
        self.enums = {}      # enumerator decl id -> (C name, value or None)
        self.enumdecls = {}  # qual name -> ([(cname, valueexpr)], scoped)
        self.records = {}    # qual class name -> node
        self.vars = {}       # namespace-scope VarDecl id -> (qualname, node)
        self.fields = {}     # FieldDecl id -> (classqual, node)
        self.needed_records = []; self.needed_enums = []
        self.typedefs = {}
        self.cnames = {}
    def need_record(self, q):
        if q in self.needed_records: return
        for b in self.records.get(q, {}).get('bases', []) or []:        # a base class is the first member: its struct must come first
            bt = norm_class(b.get('type', {}).get('desugaredQualType') or b.get('type', {}).get('qualType') or '')
            for cand in (bt, 'ST::' + bt, '_ST_PRIVATE::' + bt):
                if cand in self.records: self.need_record(cand); break
        self.needed_records.append(q)
    def need_enum(self, q):
        if q not in self.needed_enums: self.needed_enums.append(q)
    def walk(self, n, ctx, cls=None):
        if not isinstance(n, dict): return
        k = n.get('kind'); name = n.get('name')
        if k == 'NamespaceDecl':
            for c in n.get('inner', []): self.walk(c, ctx + [name or '(anonymous namespace)'], cls)
            return
        if k == 'LinkageSpecDecl':
            for c in n.get('inner', []): self.walk(c, ctx, cls)
            return
        if k in ('CXXRecordDecl', 'ClassTemplateSpecializationDecl'):
            if n.get('isImplicit'): return
            q = ctx + [name or '(anonymous)']
            if k == 'ClassTemplateSpecializationDecl':
                targs = [c for c in n.get('inner', []) if c.get('kind') == 'TemplateArgument']
                ts = ', '.join(t.get('type', {}).get('qualType', t.get('value', '?')) if isinstance(t.get('type'), dict) else str(t.get('value', '?')) for t in targs)
                q = ctx + ['%s<%s>' % (name, ts)]
            qq = '::'.join(q)
            if n.get('completeDefinition') or any(c.get('kind') in ('FieldDecl', 'CXXMethodDecl') for c in n.get('inner', [])):
                if qq not in self.records or n.get('completeDefinition'):
                    self.records[qq] = n
            for c in n.get('inner', []): self.walk(c, q, qq)
            return
        if k == 'ClassTemplateDecl':
            for c in n.get('inner', []):
                if c.get('kind') == 'ClassTemplateSpecializationDecl': self.walk(c, ctx, cls)
            return
        if k == 'FunctionTemplateDecl':
            for c in n.get('inner', []):
                if c.get('kind') in ('FunctionDecl', 'CXXMethodDecl', 'CXXConstructorDecl') and not self._dependent(c):
                    # instantiations carry template arguments as first children
                    self.walk(c, ctx, cls)
            return
        if k == 'EnumDecl':
            q = '::'.join(ctx + [name or '(anonymous)'])
            lst = []; scoped = bool(n.get('scopedEnumTag'))
            for c in n.get('inner', []):
                if c.get('kind') == 'EnumConstantDecl':
                    cname = (cident(q) + '_' + c['name']) if (scoped or cls) else c['name']
                    val = None
                    for ci in c.get('inner', []):
                        v = self._const_value(ci)
                        if v is not None: val = v
                    self.enums[c['id']] = (cname, val, q); lst.append((cname, val))
            self.enumdecls[q] = (lst, scoped)
            return
        if k in ('FunctionDecl', 'CXXMethodDecl', 'CXXConstructorDecl', 'CXXDestructorDecl', 'CXXConversionDecl'):
            q = '::'.join(ctx + [name or ''])
            # out-of-line definitions: qualified parent given by parentDeclContextId -> resolved later
            self.funcs[n['id']] = (q, n, cls)
            self.byname.setdefault(q, []).append(n['id'])
            return
        if k == 'VarDecl':
            q = '::'.join(ctx + [name or ''])
            self.vars[n['id']] = (q, n)
            return
        if k in ('TypedefDecl', 'TypeAliasDecl'):
            q = '::'.join(ctx + [name or ''])
            t = n.get('type', {})
            self.typedefs[q] = t.get('desugaredQualType') or t.get('qualType')
            return
        if k == 'FieldDecl' and cls:
            self.fields[n['id']] = (cls, n)
    def _const_value(self, n):
        """value of an initialiser that is a literal or a clang-evaluated ConstantExpr, looking through casts only"""
        while isinstance(n, dict):
            if n.get('kind') == 'ConstantExpr' and 'value' in n: return n['value']
            if n.get('kind') == 'IntegerLiteral': return n['value']
            if n.get('kind') in ('ImplicitCastExpr', 'ParenExpr', 'CStyleCastExpr', 'CXXStaticCastExpr', 'CXXFunctionalCastExpr') and n.get('inner'):
                n = n['inner'][0]; continue
            return None
        return None
    def _dependent(self, fn):
        # uninstantiated pattern: has TemplateTypeParm types
        return False
    def may_throw(self, fid, stack=()):
        """transitive: the body contains a throw, a new-expression, or a call to a function that may throw.
        Functions without a body in the dump are assumed to throw unless declared noexcept."""
        if not hasattr(self, '_mt'): self._mt = {}
        d = self.definition_of(fid)
        if d in self._mt: return self._mt[d]
        if d in stack: return False
        q, n, cls = self.funcs[d]
        if 'noexcept' in n['type']['qualType'] or q == '_ST_PRIVATE::assert_handler':
            self._mt[d] = False; return False
        if not self.has_body(d):
            self._mt[d] = not n.get('isImplicit'); return self._mt[d]
        res = self._node_throws(n, stack + (d,))
        self._mt[d] = res
        return res
    def _node_throws(self, n, stack):
        if not isinstance(n, dict): return False
        k = n.get('kind')
        if k in ('CXXThrowExpr', 'CXXNewExpr'): return True
        if k in ('CallExpr', 'CXXMemberCallExpr', 'CXXOperatorCallExpr'):
            callee = n['inner'][0]
            while callee.get('kind') in ('ImplicitCastExpr', 'ParenExpr'): callee = callee['inner'][0]
            rid = None
            if callee.get('kind') == 'DeclRefExpr': rid = callee['referencedDecl'].get('id'); rty = callee['referencedDecl'].get('type', {}).get('qualType', ''); rname = callee['referencedDecl'].get('name', '')
            elif callee.get('kind') == 'MemberExpr': rid = callee.get('referencedMemberDecl'); rty = ''; rname = callee.get('name', '')
            else: return True
            if rid in self.funcs:
                if self.may_throw(rid, stack): return True
            elif 'noexcept' not in rty and rname not in NOTHROW_EXTERNALS + LIBC + ('min', 'max', 'abs', 'swap', 'move', 'forward', 'size', 'data', 'c_str', 'length', 'empty', 'begin', 'end') and not getattr(self, 'externals_nothrow', False):
                return True
        if k in ('CXXConstructExpr', 'CXXTemporaryObjectExpr'):
            # constructor resolved by class + signature
            t = n.get('type', {}).get('desugaredQualType') or n.get('type', {}).get('qualType', '')
            key = norm_class(t)
            for cand in (key, 'ST::' + key, '_ST_PRIVATE::' + key):
                if cand in self.records:
                    short = cand.split('::')[-1].split('<')[0]
                    for fid in self.byname.get(cand + '::' + short, []):
                        if self.funcs[fid][1]['type']['qualType'] == n.get('ctorType', {}).get('qualType'):
                            if self.may_throw(fid, stack): return True
                    break
            else:
                if 'std::' in t and 'noexcept' not in n.get('ctorType', {}).get('qualType', '') and not getattr(self, 'externals_nothrow', False): return True
        return any(self._node_throws(c, stack) for c in n.get('inner', []))
    def has_body(self, fid):
        return any(c.get('kind') == 'CompoundStmt' for c in self.funcs[fid][1].get('inner', []))
    def resolve_out_of_line(self, top_objs):
        """top-level CXXMethodDecl objects printed by the filter (out-of-line definitions such as
        ST::string::operator+=) carry previousDecl/parentDeclContextId; attach them to their class."""
        byid = {}
        for q, n in self.records.items(): byid[n['id']] = q
        for o in top_objs:
            if o.get('kind') in ('CXXMethodDecl', 'CXXConstructorDecl', 'FunctionDecl') and 'parentDeclContextId' in o:
                q = byid.get(o['parentDeclContextId'])
                if q:
                    qq = q + '::' + o['name']
                    self.funcs[o['id']] = (qq, o, q)
                    self.byname.setdefault(qq, []).insert(0, o['id'])
    def add_foreign_vector(self):
        """std::vector<ST::string> (split / tokenize): an EXTERNAL container.  It is represented by a synthetic record with two ghost
        fields and four body-less members (default ctor, move ctor, dtor, push); their contracts are stubs in the harness (trusted:
        'appends one element, strong guarantee').  emplace_back / push_back calls are mapped to push by Emitter.vector_call."""
        q = VECQ
        def fn(kind, name, ty, fid):
            _, ps, _ = split_fn_type(ty)
            n = {'id': fid, 'kind': kind, 'name': name, 'type': {'qualType': ty}, 'synthetic': True,
                 'inner': [{'id': '%s_p%d' % (fid, i), 'kind': 'ParmVarDecl', 'name': 'a%d' % i, 'type': {'qualType': p}} for i, p in enumerate(ps)]}
            self.funcs[fid] = (q + '::' + name, n, q); self.byname.setdefault(q + '::' + name, []).append(fid); return n
        members = [fn('CXXConstructorDecl', 'vector', 'void () noexcept', 'synth_vec_ctor_default'),
                   fn('CXXConstructorDecl', 'vector', 'void (std::vector<ST::string> &&) noexcept', 'synth_vec_ctor_move'),
                   fn('CXXDestructorDecl', '~vector', 'void () noexcept', 'synth_vec_dtor'),
                   fn('CXXMethodDecl', 'push', 'void (ST::string &&)', 'synth_vec_push')]
        fields = [{'id': 'synth_vec_f1', 'kind': 'FieldDecl', 'name': 'count', 'type': {'qualType': 'unsigned long'}},
                  {'id': 'synth_vec_f2', 'kind': 'FieldDecl', 'name': 'owned', 'type': {'qualType': 'long'}}]
        self.records[q] = {'id': 'synth_vec', 'kind': 'CXXRecordDecl', 'name': 'vector', 'completeDefinition': True, 'inner': fields + members, 'synthetic': True}
        self.cnames.update({'synth_vec_ctor_default': 'std_vector_ST_string_ctor__v', 'synth_vec_ctor_move': 'std_vector_ST_string_ctor__xvector',
                            'synth_vec_dtor': 'std_vector_ST_string_dtor', 'synth_vec_push': 'std_vector_ST_string_push'})
    def definition_of(self, fid):
        """follow a declaration to the definition with a body (same qualified name + same type)"""
        if fid in self.funcs and self.has_body(fid): return fid
        if fid not in self.funcs: return None
        q, n, cls = self.funcs[fid]
        for other in self.byname.get(q, []):
            if other != fid and self.has_body(other) and self.funcs[other][1]['type']['qualType'] == n['type']['qualType']:
                return other
        return fid
    def cname(self, fid):
        if fid in self.cnames: return self.cnames[fid]
        q, n, cls = self.funcs[fid]
        base = cident(q)
        if n['kind'] == 'CXXConstructorDecl': base = cident(cls) + '_ctor'
        if n['kind'] == 'CXXDestructorDecl': base = cident(cls) + '_dtor'
        sigs = set(self.funcs[i][1]['type']['qualType'] for i in self.byname.get(q, []))
        if len(sigs) > 1 or n['kind'] == 'CXXConstructorDecl':
            ret, ps, trail = split_fn_type(n['type']['qualType'])
            base += '__' + ('_'.join(abbrev(p) for p in ps) or 'v')
            if re.search(r'\bconst\b', trail): base += '_k'
            if '&&' in trail: base += '_x'
        self.cnames[fid] = base
        return base

# ---------------------------------------------------------------------------
# emitter
# ---------------------------------------------------------------------------
NOTHROW_EXTERNALS = ('copy', 'move', 'assign', 'compare', 'find', 'length', 'lt', 'eq')
LIBC = ('strtol', 'strtoll', 'strtoul', 'strtoull', 'strtod', 'strtof', 'snprintf', 'fwrite', 'fputc', 'abort', 'fprintf', 'memcpy', 'memset', 'memchr', 'strlen')

class Scope:
    def __init__(self, kind): self.kind = kind; self.objs = []   # (cexpr-of-address, dtor cname)

class Emitter:
    def __init__(self, ix, spec=None):
        self.ix = ix; self.ty = Types(ix); self.spec = spec or {}
        self.needed = []          # function ids referenced (for prototypes / transitive extraction)
        self.externals = {}       # stub name -> prototype text
        self.globals_needed = []  # namespace-scope constants referenced
        self.log = []             # extraction log (inserted destructor calls etc.)
        self.tmpno = 0
    # ---- helpers
    def need(self, fid):
        if fid not in self.needed: self.needed.append(fid)
    def fname(self, fid):
        d = self.ix.definition_of(fid)
        self.need(d)
        return self.ix.cname(d)
    def newtmp(self, pfx='__t'):
        self.tmpno += 1; return '%s%d' % (pfx, self.tmpno)
    def qt(self, n):
        t = n.get('type', {})
        return t.get('desugaredQualType') or t.get('qualType')
    def is_class_type(self, qt):
        k = norm_class(qt.rstrip('&').strip())
        for cand in (k, 'ST::' + k, '_ST_PRIVATE::' + k):
            if cand in self.ix.records: return cand
        return None
    def dtor_of(self, clsq):
        """cname of the destructor of class clsq, or None when trivial (no user-declared destructor, no class-typed fields with one)"""
        rec = self.ix.records[clsq]
        for c in rec.get('inner', []):
            if c.get('kind') == 'CXXDestructorDecl' and not c.get('isImplicit'):
                return self.fname(c['id'])
        # implicit destructor: non-trivial iff some field has a non-trivial destructor
        subs = []
        for c in rec.get('inner', []):
            if c.get('kind') == 'FieldDecl':
                fq = self.is_class_type(self.qt(c))
                if fq and self.dtor_of(fq): subs.append((c['name'], fq))
        if subs:
            return ('__implicit_dtor', clsq, subs)
        return None
    def emit_dtor_call(self, addr, clsq):
        d = self.dtor_of(clsq)
        if d is None: return []
        if isinstance(d, tuple):
            out = []
            for fld, fq in reversed(d[2]):
                out += self.emit_dtor_call('&(%s)->%s' % (addr, fld), fq)
            return out
        return ['%s(%s);' % (d, addr)]
    # ---- cleanup bookkeeping
    def cleanup_to(self, kind_set):
        """destructor calls for all scopes from innermost up to and including the first scope whose kind is in kind_set"""
        out = []
        for t, clsq in reversed(self.temps):
            out += self.emit_dtor_call(t, clsq)
        for sc in reversed(self.scopes):
            for addr, clsq in reversed(sc.objs):
                out += self.emit_dtor_call(addr, clsq)
            if sc.kind in kind_set: break
        return out
    def ret_default(self):
        if self.ret_c == 'void': return 'return;'
        if self.ret_c.startswith('struct ') and not self.ret_c.endswith('*'): raise Unsupported('struct by value return default')
        return 'return (%s)0;' % self.ret_c
    def exc_check(self):
        cl = self.cleanup_to({'function'})
        return 'if (ST_EXC) { %s %s }' % (' '.join(cl), self.ret_default())
    # ---- expressions: return C text; may push statements on self.pre and temporaries on self.temps
    def e(self, n):
        k = n['kind']
        f = getattr(self, 'e_' + k, None)
        if not f: raise Unsupported('expr kind ' + k)
        return f(n)
    def e_IntegerLiteral(self, n):
        t = n['type']['qualType']; v = n['value']
        suf = {'unsigned int': 'u', 'long': 'l', 'unsigned long': 'ul', 'long long': 'll', 'unsigned long long': 'ull'}.get(t, '')
        return v + suf
    def e_FloatingLiteral(self, n): return n['value']
    def e_CharacterLiteral(self, n): return '((%s)%d)' % (self.ty.name(n['type']['qualType']), n['value'])
    def e_StringLiteral(self, n):
        v = n['value']
        if v[:1] in 'LuU' and not v.startswith('u8'): raise Unsupported('wide string literal')
        if v.startswith('u8'): v = v[2:]
        return v
    def e_CXXBoolLiteralExpr(self, n): return '1' if n['value'] else '0'
    def e_CXXNullPtrLiteralExpr(self, n): return 'NULL'
    def e_GNUNullExpr(self, n): return 'NULL'
    def e_ParenExpr(self, n): return '(' + self.e(n['inner'][0]) + ')'
    def e_ConstantExpr(self, n): return self.e(n['inner'][0])
    def e_ExprWithCleanups(self, n): return self.e(n['inner'][0])
    def e_SubstNonTypeTemplateParmExpr(self, n): return self.e(n['inner'][-1])
    def e_CXXBindTemporaryExpr(self, n): return self.e(n['inner'][0])
    def e_MaterializeTemporaryExpr(self, n):
        sub = n['inner'][0]
        clsq = self.is_class_type(self.qt(n))
        if clsq:
            return '(*%s)' % self.class_prvalue_to_temp(sub, clsq)
        # scalar temporary bound to a reference: needs an addressable object
        t = self.newtmp()
        d, _ = self.ty.decl(self.qt(n), t)
        self.pre.append('%s = %s;' % (d.replace('const ', ''), self.e(sub)))
        return t
    def class_prvalue_to_temp(self, sub, clsq):
        """construct the class prvalue `sub` into a fresh temporary; returns its address expression"""
        t = self.newtmp()
        self.pre.append('struct %s %s;' % (cident(clsq), t))
        self.construct_into('&' + t, sub, clsq)
        self.temps.append(('&' + t, clsq))
        return '&' + t
    def strip_wrappers(self, n):
        while n['kind'] in ('ExprWithCleanups', 'CXXBindTemporaryExpr', 'MaterializeTemporaryExpr', 'ConstantExpr') or \
                (n['kind'] in ('ImplicitCastExpr',) and n.get('castKind') in ('NoOp',)) or \
                (n['kind'] == 'CXXFunctionalCastExpr' and n.get('castKind') in ('ConstructorConversion', 'NoOp')) or \
                (n['kind'] == 'ImplicitCastExpr' and n.get('castKind') == 'ConstructorConversion'):
            n = n['inner'][0]
        return n
    def construct_into(self, target, sub, clsq):
        """emit statements (to self.pre) that initialise *target (uninitialised storage of class clsq) from class prvalue `sub`"""
        sub = self.strip_wrappers(sub)
        k = sub['kind']
        if k in ('CXXConstructExpr', 'CXXTemporaryObjectExpr'):
            self.pre.append(self.ctor_call(sub, target, clsq) + ';')
            if self.ctor_may_throw(sub, clsq): self.pre.append(self.exc_check())
        elif k in ('CallExpr', 'CXXMemberCallExpr', 'CXXOperatorCallExpr', 'UserDefinedLiteral'):
            self.pre.append(self.call(sub, ret_target=target) + ';')
            if self.call_may_throw(sub): self.pre.append(self.exc_check())
        elif k == 'ConditionalOperator':
            c, a, b = sub['inner']
            cond = self.e(c)
            save = self.pre; self.pre = []
            self.construct_into(target, a, clsq); pa = self.pre; self.pre = []
            self.construct_into(target, b, clsq); pb = self.pre; self.pre = save
            self.pre.append('if (%s) { %s } else { %s }' % (cond, ' '.join(pa), ' '.join(pb)))
        elif k == 'InitListExpr' and not sub.get('inner'):
            raise Unsupported('empty init list for class ' + clsq)
        else:
            raise Unsupported('class prvalue of kind ' + k)
    def ctor_lookup(self, ce, clsq):
        if clsq == VECQ:
            na = len(ce.get('inner', []))
            if na == 0: return 'synth_vec_ctor_default'
            if na == 1 and ce['inner'][0].get('valueCategory') == 'xvalue': return 'synth_vec_ctor_move'
            raise Unsupported('std::vector<ST::string> constructor with %d arguments' % na)
        sig = ce['ctorType']['qualType']
        short = clsq.split('::')[-1].split('<')[0]
        ids = self.ix.byname.get(clsq + '::' + short, [])
        for fid in ids:
            if self.ix.funcs[fid][1]['type']['qualType'] == sig: return fid
        return None
    def ctor_is_trivial(self, fid):
        fn = self.ix.funcs[fid][1]
        return fn.get('isImplicit') or not self.ix.has_body(fid) and (fn.get('explicitlyDefaulted') is not None or fn.get('isImplicit'))
    def ctor_call(self, ce, target, clsq):
        fid = self.ctor_lookup(ce, clsq)
        args = [a for a in ce.get('inner', [])]
        if fid is None or self.ctor_is_trivial(fid):
            # implicit / defaulted constructor of a plain record
            if self.dtor_of(clsq) is not None and len(args) == 1:
                return self.implicit_copy_move(ce, target, clsq)
            if len(args) == 1: return '*(%s) = %s' % (target, self.e(args[0]))
            if len(args) == 0: return 'memset(%s, 0, sizeof(*(%s)))' % (target, target)
            raise Unsupported('implicit ctor with args ' + clsq)
        fn = self.ix.funcs[fid][1]
        _, ptypes, _ = split_fn_type(fn['type']['qualType'])
        a = self.args(args, ptypes, fid)
        return '%s(%s)' % (self.fname(fid), ', '.join([target] + a))
    def implicit_copy_move(self, ce, target, clsq):
        """implicit member-wise copy/move constructor of a class with class-typed fields"""
        sig = ce['ctorType']['qualType']; src = self.e(ce['inner'][0])
        rec = self.ix.records[clsq]; out = []
        for c in rec.get('inner', []):
            if c.get('kind') != 'FieldDecl': continue
            fq = self.is_class_type(self.qt(c))
            if fq:
                short = fq.split('::')[-1].split('<')[0]
                want = '&&' if '&&' in sig else 'const'
                fid = None
                for i in self.ix.byname.get(fq + '::' + short, []):
                    _, ps, _ = split_fn_type(self.ix.funcs[i][1]['type']['qualType'])
                    if len(ps) == 1 and norm_class(ps[0].rstrip('&').strip()) == norm_class(fq) and (('&&' in ps[0]) == (want == '&&')): fid = i
                if fid is None: raise Unsupported('implicit copy/move: no ctor for field of ' + fq)
                out.append('%s(&(%s)->%s, &(%s).%s)' % (self.fname(fid), target, c['name'], src, c['name']))
            else:
                out.append('(%s)->%s = (%s).%s' % (target, c['name'], src, c['name']))
        return '; '.join(out)
    def ctor_may_throw(self, ce, clsq):
        fid = self.ctor_lookup(ce, clsq)
        if fid is None: return False
        if 'noexcept' in self.ix.funcs[fid][1]['type']['qualType']: return False
        return self.ix.may_throw(fid)
    def e_CXXConstructExpr(self, n):
        clsq = self.is_class_type(self.qt(n))
        if clsq and self.dtor_of(clsq) is None and len(n.get('inner', [])) == 1 and (self.ctor_lookup(n, clsq) is None or self.ctor_is_trivial(self.ctor_lookup(n, clsq))):
            return self.e(n['inner'][0])          # trivially copyable record: value copy
        if clsq:
            return '(*%s)' % self.class_prvalue_to_temp(n, clsq)
        raise Unsupported('CXXConstructExpr of ' + self.qt(n))
    e_CXXTemporaryObjectExpr = e_CXXConstructExpr
    def e_DeclRefExpr(self, n):
        rd = n['referencedDecl']; rk = rd['kind']
        if rk == 'EnumConstantDecl':
            if rd['id'] in self.ix.enums:
                cname, val, q = self.ix.enums[rd['id']]
                self.ix.need_enum(q)
                return cname
            raise Unsupported('unknown enumerator ' + rd['name'])
        if rk in ('FunctionDecl', 'CXXMethodDecl'):
            if rd['id'] in self.ix.funcs: return self.fname(rd['id'])
            raise Unsupported('reference to unknown function ' + rd['name'])
        nm = rd['name']
        if rk == 'VarDecl' and rd['id'] in self.ix.vars:
            q, node = self.ix.vars[rd['id']]
            if (q, rd['id']) not in self.globals_needed: self.globals_needed.append((q, rd['id']))
            return cident(q)
        if rd['id'] in self.refs: return '(*%s)' % nm
        if rk == 'VarDecl' and n.get('nonOdrUseReason') == 'constant' and nm in ('digits',) and rd['id'] not in self.locals:
            return self.numeric_limits_const(nm)
        return nm
    def numeric_limits_const(self, nm):
        """std::numeric_limits<T>::digits referenced from a member of a class template instantiation that names
        std::numeric_limits<T> through a member typedef: computed from T (platform fact: CHAR_BIT == 8, two's complement)"""
        cls = self.ix.funcs[self.cur_fid][2]
        ts = set()
        for k, v in self.ix.typedefs.items():
            if cls and k.startswith(cls + '::') and v:
                m = re.match(r'^std::numeric_limits<(.+)>$', v.strip())
                if m: ts.add(m.group(1).strip())
        if len(ts) != 1: raise Unsupported('cannot resolve std::numeric_limits<?>::%s in %s' % (nm, self.cur_q))
        t = ts.pop(); ct = self.ty.name(t)
        signed = not (t.startswith('unsigned') or t in ('char16_t', 'char32_t', 'bool'))
        return '((int)(sizeof(%s) * 8 - %d))' % (ct, 1 if signed else 0)
    def e_ImplicitCastExpr(self, n):
        ck = n['castKind']; sub = n['inner'][0]
        if ck in ('LValueToRValue', 'NoOp', 'FunctionToPointerDecay', 'ArrayToPointerDecay', 'BuiltinFnToFnPtr', 'UncheckedDerivedToBase', 'DerivedToBase'):
            if ck in ('UncheckedDerivedToBase', 'DerivedToBase'): raise Unsupported('derived-to-base')
            return self.e(sub)
        if ck in ('IntegralCast', 'IntegralToBoolean', 'PointerToBoolean', 'BitCast', 'NullToPointer', 'IntegralToFloating', 'FloatingCast',
                  'FloatingToIntegral', 'PointerToIntegral', 'IntegralToPointer', 'FloatingToBoolean'):
            return '((%s)%s)' % (self.ty.cast(self.qt(n)), self.e(sub))
        if ck in ('ConstructorConversion', 'UserDefinedConversion'):
            return self.e(sub)
        raise Unsupported('cast kind ' + ck)
    def explicit_cast(self, n):
        ck = n.get('castKind')
        if ck in ('ConstructorConversion',): return self.e(n['inner'][0])
        if ck == 'ToVoid': return '((void)(%s))' % self.e(n['inner'][0])
        return '((%s)(%s))' % (self.ty.cast(self.qt(n)), self.e(n['inner'][0]))
    e_CStyleCastExpr = e_CXXStaticCastExpr = e_CXXReinterpretCastExpr = e_CXXFunctionalCastExpr = e_CXXConstCastExpr = explicit_cast
    def e_UnaryOperator(self, n):
        op = n['opcode']; s = self.e(n['inner'][0])
        if op == '&' and s.startswith('(*') and s.endswith(')') and self.balanced(s[2:-1]): return s[2:-1]
        if op == '*' and s.startswith('&') and re.match(r'^&\w+$', s): return s[1:]
        return '(%s%s)' % (s, op) if n.get('isPostfix') else '(%s%s)' % (op, s)
    def balanced(self, s):
        d = 0
        for ch in s:
            if ch == '(': d += 1
            if ch == ')':
                d -= 1
                if d < 0: return False
        return d == 0
    def e_BinaryOperator(self, n):
        a, b = n['inner']; op = n['opcode']
        if op in ('&&', '||'):
            sa = self.e(a)
            save = self.pre; self.pre = []; ntemps = len(self.temps)
            sb = self.e(b)
            pb = self.pre; self.pre = save
            if len(self.temps) != ntemps: raise Unsupported('class temporaries under short-circuit operator')
            if pb:
                t = self.newtmp('__sc')
                self.pre.append('_Bool %s = %s;' % (t, sa))
                self.pre.append('if (%s%s) { %s %s = %s; }' % ('' if op == '&&' else '!', t, ' '.join(pb), t, sb))
                return t
            return '(%s %s %s)' % (sa, op, sb)
        if op == ',': raise Unsupported('comma operator')
        if op in ('<', '>', '<=', '>=') and self.qt(a).rstrip().endswith('*') and self.qt(b).rstrip().endswith('*'):
            # relational comparison of two pointers into the same array (possibly one before / one past it): compared by
            # signed byte offset.  CBMC's own pointer '<' treats the offset of `base - 1` as a huge unsigned value.
            return '(ST_PTR_OFF(%s) %s ST_PTR_OFF(%s))' % (self.e(a), op, self.e(b))
        if op == '-' and self.qt(a).rstrip().endswith('*') and self.qt(b).rstrip().endswith('*'):
            # pointer difference inside one array, same reason (CBMC: offset of `base - 1` is 2^54 - 1, not -1)
            et = self.ty.cast(self.qt(a).rstrip()[:-1].strip())
            return '((ST_PTR_OFF(%s) - ST_PTR_OFF(%s)) / (ssize_t)sizeof(%s))' % (self.e(a), self.e(b), et.replace('const ', '') if et.replace('const ', '').strip() != 'void' else 'char')
        return '(%s %s %s)' % (self.e(a), op, self.e(b))
    e_CompoundAssignOperator = e_BinaryOperator
    def e_ConditionalOperator(self, n):
        c, a, b = n['inner']
        sc = self.e(c)
        save = self.pre; ntemps = len(self.temps)
        self.pre = []; sa = self.e(a); pa = self.pre
        self.pre = []; sb = self.e(b); pb = self.pre
        self.pre = save
        if len(self.temps) != ntemps: raise Unsupported('class temporaries under ?:')
        if pa or pb:
            if n.get('valueCategory') == 'lvalue': raise Unsupported('lvalue ?: with side-effecting branches')
            t = self.newtmp('__c')
            d, _ = self.ty.decl(self.qt(n), t)
            self.pre.append(d.replace('const ', '') + ';')
            self.pre.append('if (%s) { %s %s = %s; } else { %s %s = %s; }' % (sc, ' '.join(pa), t, sa, ' '.join(pb), t, sb))
            return t
        return '(%s ? %s : %s)' % (sc, sa, sb)
    def e_ArraySubscriptExpr(self, n):
        a, b = n['inner']; return '%s[%s]' % (self.e(a), self.e(b))
    def e_CXXThisExpr(self, n): return 'self'
    def e_MemberExpr(self, n):
        base = n['inner'][0]
        b = self.e(base)
        if n.get('isArrow'): return '%s->%s' % (b, n['name'])
        if b.startswith('(*') and b.endswith(')') and self.balanced(b[2:-1]): return '%s->%s' % (b[2:-1] if re.match(r'^\w+$', b[2:-1]) else '(' + b[2:-1] + ')', n['name'])
        return '%s.%s' % (b, n['name'])
    def e_UnaryExprOrTypeTraitExpr(self, n):
        if 'argType' in n:
            return '%s(%s)' % (n['name'], self.ty.cast(n['argType'].get('desugaredQualType', n['argType']['qualType'])))
        return '%s(%s)' % (n['name'], self.e(n['inner'][0]))
    def e_InitListExpr(self, n):
        inner = n.get('inner', [])
        if 'array_filler' in n:
            inner = [c for c in n['array_filler'] if c.get('kind') != 'ImplicitValueInitExpr']
            return '{ ' + ', '.join([self.e(c) for c in inner] or ['0']) + ' }'
        return '{ ' + ', '.join([self.e(c) for c in inner] or ['0']) + ' }'
    def e_ImplicitValueInitExpr(self, n): return '0'
    def e_CXXScalarValueInitExpr(self, n): return '((%s)0)' % self.ty.cast(self.qt(n))
    def e_CXXDefaultArgExpr(self, n): raise Unsupported('default argument outside call')
    def e_CXXNewExpr(self, n):
        if not n.get('isArray'): raise Unsupported('scalar new')
        et = self.qt(n).rstrip('*').strip()
        self.externals['st_new_' + cident(et)] = '%s *st_new_%s(size_t n)' % (self.ty.name(et), cident(et))
        t = self.newtmp('__n')
        self.pre.append('%s *%s = st_new_%s(%s);' % (self.ty.name(et), t, cident(et), self.e(n['inner'][0])))
        self.pre.append(self.exc_check())
        return t
    def e_CXXDeleteExpr(self, n):
        self.externals['st_delete'] = 'void st_delete(void *p)'
        return 'st_delete(%s)' % self.e(n['inner'][0])
    def e_CXXThrowExpr(self, n):
        raise Unsupported('throw in expression position')
    def e_CallExpr(self, n): return self.call_expr(n)
    e_CXXMemberCallExpr = e_CXXOperatorCallExpr = e_UserDefinedLiteral = e_CallExpr
    def call_expr(self, n):
        clsq = self.is_class_type(self.qt(n)) if n.get('valueCategory', 'prvalue') == 'prvalue' else None
        if clsq and self.dtor_of(clsq) is not None:
            return '(*%s)' % self.class_prvalue_to_temp(n, clsq)
        if clsq:
            t = self.newtmp()
            self.pre.append('struct %s %s;' % (cident(clsq), t))
            self.pre.append(self.call(n, ret_target='&' + t) + ';')
            if self.call_may_throw(n): self.pre.append(self.exc_check())
            return t
        s = self.call(n)
        if self.call_may_throw(n):
            rt = self.qt(n)
            if rt == 'void' or n.get('valueCategory') == 'lvalue' and self.stmt_level:
                self.post_call_check = True
                if n.get('valueCategory') == 'lvalue' and self.callee_returns_ref(n): return '(*%s)' % s
                return s
            if n.get('valueCategory') == 'lvalue':
                t = self.newtmp()
                d, _ = self.ty.decl(rt + ' *', t)
                self.pre.append('%s = %s;' % (d, s)); self.pre.append(self.exc_check())
                return '(*%s)' % t
            t = self.newtmp()
            d, _ = self.ty.decl(rt, t)
            self.pre.append('%s = %s;' % (d.replace('const ', ''), s)); self.pre.append(self.exc_check())
            return t
        if n.get('valueCategory') == 'lvalue' and self.callee_returns_ref(n): return '(*%s)' % s
        return s
    def callee_returns_ref(self, n):
        rd = self.callee_decl(n)
        if rd is None: return False
        if rd.get('id') not in self.ix.funcs: return False      # externals (std::min/max ...) are value-returning stubs
        ret, _, _ = split_fn_type(rd['type']['qualType'])
        return ret.endswith('&')
    def callee_decl(self, n):
        callee = n['inner'][0]
        while callee['kind'] in ('ImplicitCastExpr', 'ParenExpr'): callee = callee['inner'][0]
        if callee['kind'] == 'DeclRefExpr': return callee['referencedDecl']
        if callee['kind'] == 'MemberExpr':
            mid = callee.get('referencedMemberDecl')
            if mid in self.ix.funcs: return self.ix.funcs[mid][1]
        return None
    def call_may_throw(self, n):
        rd = self.callee_decl(n)
        if rd is None: return True
        ty = rd['type']['qualType']
        if 'noexcept' in ty or rd.get('name') == 'assert_handler': return False
        if rd.get('id') not in self.ix.funcs:
            return False           # externals: stubs decide (st_new handled separately)
        q = self.ix.funcs[rd['id']][0]
        if q in self.spec.get('__nothrow__', ()): return False
        return self.ix.may_throw(rd['id'])
    def call(self, n, ret_target=None):
        """C text of a call; class-typed results are written through ret_target"""
        callee = n['inner'][0]; args = n['inner'][1:]
        while callee['kind'] in ('ImplicitCastExpr', 'ParenExpr'): callee = callee['inner'][0]
        selfarg = None
        if callee['kind'] == 'MemberExpr':
            obj = callee['inner'][0]
            mid = callee.get('referencedMemberDecl')
            if mid not in self.ix.funcs and self.is_class_type(self.qt(obj) or '') == VECQ: return self.vector_call(callee, obj, args)
            mo = OSTREAM_RE.match(re.sub(r'\b(const|class|struct)\b', '', (self.qt(obj) or '')).strip())
            if mid not in self.ix.funcs and mo and callee.get('name') in ('write', 'put'):
                # std::basic_ostream<T>::write / put: external; contract stubs os_write_<T> / os_put_<T> (append the given units to the stream's log)
                o = self.e(obj); sp = o[2:-1] if (o.startswith('(*') and o.endswith(')') and self.balanced(o[2:-1])) else '&' + o
                stub = 'os_%s_%s' % (callee['name'], cident(mo.group(1)))
                self.externals.setdefault(stub, None)
                return '%s(%s)' % (stub, ', '.join([sp] + [self.e(a) for a in args]))
            if mid not in self.ix.funcs: raise Unsupported('member call to unknown ' + callee.get('name', '?'))
            fid = mid
            o = self.e(obj)
            if callee.get('isArrow'): selfarg = o
            elif o.startswith('(*') and o.endswith(')') and self.balanced(o[2:-1]): selfarg = o[2:-1]
            else: selfarg = '&' + o
        elif callee['kind'] == 'DeclRefExpr':
            rd = callee['referencedDecl']
            if rd['id'] not in self.ix.funcs:
                return self.external_call(callee, rd, args)
            fid = rd['id']
            fn = self.ix.funcs[fid][1]
            if n['kind'] == 'CXXOperatorCallExpr' and fn['kind'] == 'CXXMethodDecl':
                o = self.e(args[0]); args = args[1:]
                selfarg = o[2:-1] if (o.startswith('(*') and o.endswith(')') and self.balanced(o[2:-1])) else '&' + o
        else:
            raise Unsupported('indirect call via ' + callee['kind'])
        fn = self.ix.funcs[fid][1]
        if self.ix.funcs[fid][0] == '_ST_PRIVATE::assert_handler':
            f = os.path.basename(self.e(args[0]).strip('"')); msg = self.e(args[2]).strip('"').replace('\\', '')
            return 'ST_ASSERT_FAIL("ST_ASSERT %s: %s")' % (f, msg)
        if fn.get('isImplicit') or (fn.get('explicitlyDefaulted') and not self.ix.has_body(fid)):
            # implicit copy/move assignment of a plain record
            clsq = self.ix.funcs[fid][2]
            if fn['name'] == 'operator=' and clsq and self.dtor_of(clsq) is None:
                return '(*(%s) = %s, %s)' % (selfarg, self.e(args[0]), selfarg)
            if fn['name'] == 'operator=' and clsq:
                return self.implicit_assign(selfarg, args[0], clsq, fn)
            raise Unsupported('call to implicit member ' + fn['name'])
        _, ptypes, _ = split_fn_type(fn['type']['qualType'])
        a = self.args(args, ptypes, fid)
        pre = [selfarg] if selfarg is not None else []
        retq, _, _ = split_fn_type(fn['type']['qualType'])
        rcls = self.is_class_type(retq) if not retq.endswith('&') and not retq.endswith('*') else None
        if rcls:
            if ret_target is None: raise Unsupported('class-typed call result without target')
            pre = [ret_target] + pre
        return '%s(%s)' % (self.fname(fid), ', '.join(pre + a))
    def vector_call(self, callee, obj, args):
        """result.emplace_back(args...) / result.push_back(string&&) on std::vector<ST::string>: construct the new element as a
        temporary ST::string (the constructor std::allocator_traits::construct would select: one ST::string&& argument = move,
        (const char*, integral, utf_validation_t) = string(const char*, size_t, utf_validation_t)), then hand it to the push stub."""
        nm = callee.get('name')
        if nm not in ('emplace_back', 'push_back'): raise Unsupported('std::vector member ' + str(nm))
        v = self.e(obj); vaddr = v[2:-1] if (v.startswith('(*') and v.endswith(')') and self.balanced(v[2:-1])) else '&' + v
        SQ = 'ST::string'
        if len(args) == 1 and self.is_class_type(self.qt(args[0])) == SQ:
            a = self.e(args[0])
            el = a[2:-1] if (a.startswith('(*') and a.endswith(')') and self.balanced(a[2:-1])) else '&' + a
        elif len(args) == 3 and nm == 'emplace_back':
            fid = None
            for i in self.ix.byname.get('ST::string::string', []):
                _, ps, _ = split_fn_type(self.ix.funcs[i][1]['type']['qualType'])
                if len(ps) == 3 and ps[0].replace(' ', '') == 'constchar*' and ps[1] in ('size_t', 'unsigned long', 'std::size_t') and 'utf_validation_t' in ps[2]: fid = i
            if fid is None: raise Unsupported('emplace_back: no ST::string(const char*, size_t, utf_validation_t)')
            t = self.newtmp()
            self.pre.append('struct ST_string %s;' % t)
            self.pre.append('%s(&%s, %s, (unsigned long)(%s), %s);' % (self.fname(fid), t, self.e(args[0]), self.e(args[1]), self.e(args[2])))
            if self.ix.may_throw(fid): self.pre.append(self.exc_check())
            self.temps.append(('&' + t, SQ))
            el = '&' + t
        else:
            raise Unsupported('std::vector::%s with %d arguments' % (nm, len(args)))
        self.need('synth_vec_push')
        self.post_call_check = True
        return 'std_vector_ST_string_push(%s, %s)' % (vaddr, el)
    def implicit_assign(self, selfarg, arg, clsq, fn):
        src = self.e(arg); out = []
        move = '&&' in fn['type']['qualType']
        rec = self.ix.records[clsq]
        for c in rec.get('inner', []):
            if c.get('kind') != 'FieldDecl': continue
            fq = self.is_class_type(self.qt(c))
            if fq:
                fid = None
                for i in self.ix.byname.get(fq + '::operator=', []):
                    _, ps, _ = split_fn_type(self.ix.funcs[i][1]['type']['qualType'])
                    if len(ps) == 1 and norm_class(ps[0].rstrip('&').strip()) == norm_class(fq) and (('&&' in ps[0]) == move): fid = i
                if fid is None: raise Unsupported('implicit assignment: no operator= for ' + fq)
                out.append('%s(&(%s)->%s, &(%s).%s)' % (self.fname(fid), selfarg, c['name'], src, c['name']))
            else:
                out.append('(%s)->%s = (%s).%s' % (selfarg, c['name'], src, c['name']))
        return '(' + ', '.join(out) + ', %s)' % selfarg
    def default_arg(self, fid, i):
        fn = self.ix.funcs[fid][1]
        ps = [c for c in fn.get('inner', []) if c.get('kind') == 'ParmVarDecl']
        cands = [ps]
        # default arguments may live on another declaration of the same function
        q = self.ix.funcs[fid][0]
        for other in self.ix.byname.get(q, []):
            if other != fid and self.ix.funcs[other][1]['type']['qualType'] == fn['type']['qualType']:
                cands.append([c for c in self.ix.funcs[other][1].get('inner', []) if c.get('kind') == 'ParmVarDecl'])
        for plist in cands:
            if i < len(plist):
                init = [c for c in plist[i].get('inner', []) if c.get('kind')]
                if init: return init[0]
        raise Unsupported('default argument not found')
    def args(self, args, ptypes, fid=None):
        out = []
        for i, a in enumerate(args):
            pt = ptypes[i] if i < len(ptypes) else ''
            if a['kind'] == 'CXXDefaultArgExpr':
                if fid is None: raise Unsupported('default arg of external')
                a = self.default_arg(fid, i)
            out.append(self.arg(a, pt))
        return out
    def arg(self, a, ptype):
        if ptype.endswith('&'):
            s = self.e(a)
            if s.startswith('(*') and s.endswith(')') and self.balanced(s[2:-1]): return s[2:-1]
            return '&' + s
        clsq = self.is_class_type(ptype) if ptype and not ptype.endswith('*') else None
        if clsq and self.dtor_of(clsq) is not None: raise Unsupported('class-typed by-value parameter ' + ptype)
        return self.e(a)
    def external_call(self, callee, rd, args):
        nm = rd['name']; ty = rd['type']['qualType']
        ret, ptypes, _ = split_fn_type(ty)
        if nm in NOTHROW_EXTERNALS and 'char_type' in ty or nm in NOTHROW_EXTERNALS and 'char_traits' in json.dumps(callee.get('referencedDecl', {})):
            at = self.qt(args[0]).replace('const', '').replace('*', '').strip()
            stub = 'tr_%s_%s' % (nm, cident(at))
        elif nm == 'assert_handler': stub = 'ST_ASSERT_FAIL'
        elif nm in LIBC: stub = 'lc_' + nm
        elif nm == 'min' or nm == 'max': stub = 'std_%s_%s' % (nm, cident(ptypes[0].replace('const', '').replace('&', '').strip()))
        elif nm == 'abs': stub = 'std_abs_' + cident(ptypes[0])
        elif nm == 'swap':
            a0 = self.e(args[0]); a1 = self.e(args[1])
            t = self.newtmp('__sw')
            d, _ = self.ty.decl(ptypes[0].rstrip('&').strip(), t)
            self.pre.append('%s = %s; %s = %s; %s = %s;' % (d, a0, a0, a1, a1, t))
            return '((void)0)'
        elif nm in ('move', 'forward') and len(args) == 1:
            return self.e(args[0])
        else:
            raise Unsupported('external call ' + nm + ' : ' + ty)
        self.externals.setdefault(stub, None)
        return '%s(%s)' % (stub, ', '.join(self.arg(a, ptypes[i] if i < len(ptypes) and nm in ('min', 'max') and False else '') for i, a in enumerate(args)))
    # ---- statements
    def flush(self, line=None):
        """emit pending prelude, the line, then destroy the full-expression temporaries"""
        for p in self.pre: self.out.append(self.pad + p)
        self.pre = []
        if line is not None: self.out.append(self.pad + line)
        if self.post_call_check:
            self.out.append(self.pad + self.exc_check()); self.post_call_check = False
        for t, clsq in reversed(self.temps):
            for l in self.emit_dtor_call(t, clsq): self.out.append(self.pad + l)
        self.temps = []
    def full_expr(self, n):
        self.stmt_level = True
        s = self.e(n)
        self.stmt_level = False
        return s
    def s(self, n, ind):
        if not n or not n.get('kind'): return
        k = n['kind']; self.pad = '    ' * ind; pad = self.pad
        if k == 'CompoundStmt':
            self.out.append(pad + '{')
            self.scopes.append(Scope('block'))
            for c in n.get('inner', []): self.s(c, ind + 1)
            self.pad = '    ' * (ind + 1)
            if not self.ends_with_jump(n):
                for addr, clsq in reversed(self.scopes[-1].objs):
                    for l in self.emit_dtor_call(addr, clsq): self.out.append(self.pad + l)
            self.scopes.pop()
            self.out.append(pad + '}')
        elif k == 'DeclStmt':
            for v in n['inner']:
                self.pad = pad
                if v['kind'] in ('StaticAssertDecl', 'TypedefDecl', 'TypeAliasDecl', 'UsingDecl'): continue
                if v['kind'] != 'VarDecl': raise Unsupported('decl ' + v['kind'])
                self.vardecl(v)
        elif k == 'IfStmt':
            ch = [c for c in n['inner']]
            if n.get('hasInit') or n.get('hasVar'): raise Unsupported('if with init/var')
            c = self.full_expr(ch[0])
            if self.temps: raise Unsupported('class temporaries in if condition')
            self.flush('if (%s)' % c)
            self.s_block(ch[1], ind)
            if len(ch) > 2:
                self.out.append(pad + 'else'); self.s_block(ch[2], ind)
        elif k in ('WhileStmt', 'DoStmt', 'ForStmt'):
            self.loop(n, ind)
        elif k == 'ReturnStmt':
            self.ret(n, ind)
        elif k == 'BreakStmt':
            for l in self.cleanup_to({'loop', 'switch'}): self.out.append(pad + l)
            tgt = self.break_target()
            self.out.append(pad + ('goto %s;' % tgt if tgt else 'break;'))
        elif k == 'ContinueStmt':
            for l in self.cleanup_to({'loop'}): self.out.append(pad + l)
            tgt = self.continue_target()
            self.out.append(pad + ('goto %s;' % tgt if tgt else 'continue;'))
        elif k == 'NullStmt': self.out.append(pad + ';')
        elif k == 'SwitchStmt':
            ch = n['inner']
            self.flush('switch (%s)' % self.full_expr(ch[0]))
            self.scopes.append(Scope('switch')); self.cutstack.append(None)
            self.s_block(ch[1], ind)
            self.cutstack.pop(); self.scopes.pop()
        elif k == 'CaseStmt':
            ch = n['inner']; self.out.append(pad + 'case %s:' % self.e(ch[0])); self.s(ch[1], ind + 1)
        elif k == 'DefaultStmt':
            self.out.append(pad + 'default:'); self.s(n['inner'][0], ind + 1)
        elif k == 'CXXThrowExpr' or (k == 'ExprWithCleanups' and n['inner'][0]['kind'] == 'CXXThrowExpr'):
            t = n if k == 'CXXThrowExpr' else n['inner'][0]
            self.throw(t, pad)
        elif k == 'CXXTryStmt':
            raise Unsupported('try/catch')
        else:
            s = self.full_expr(n)
            if s.startswith('(*') and s.endswith(')') and self.balanced(s[2:-1]): s = s[2:-1]     # discarded lvalue result of a call: no dereference
            self.flush(s + ';')
    def ends_with_jump(self, comp):
        inner = comp.get('inner', [])
        if not inner: return False
        last = inner[-1]
        k = last['kind']
        if k in ('ReturnStmt', 'BreakStmt', 'ContinueStmt', 'CXXThrowExpr'): return True
        if k == 'ExprWithCleanups' and last['inner'][0]['kind'] == 'CXXThrowExpr': return True
        return False
    def throw(self, t, pad):
        sub = t.get('inner', [None])[0]
        if sub is None: raise Unsupported('rethrow')
        et = self.qt(sub)
        self.exceptions.add(et)
        self.out.append(pad + 'ST_EXC = %s;' % cident('EXC_' + et.replace('const ', '')))
        for l in self.cleanup_to({'function'}): self.out.append(pad + l)
        self.out.append(pad + self.ret_default())
    def vardecl(self, v):
        self.locals.add(v['id'])
        qt = self.qt(v)
        name = v['name']
        init = [c for c in v.get('inner', []) if c.get('kind') and not c['kind'].endswith('Attr')]
        clsq = self.is_class_type(qt) if not qt.rstrip().endswith(('&', '*', ']')) else None
        if clsq and self.dtor_of(clsq) is not None or (clsq and init and self.strip_wrappers(init[0])['kind'] in ('CXXConstructExpr', 'CXXTemporaryObjectExpr') and self.ctor_lookup(self.strip_wrappers(init[0]), clsq) is not None and not self.ctor_is_trivial(self.ctor_lookup(self.strip_wrappers(init[0]), clsq))):
            self.out.append(self.pad + 'struct %s %s;' % (cident(clsq), name))
            if not init: raise Unsupported('class local without initialiser')
            self.construct_into('&' + name, init[0], clsq)
            self.flush()
            if self.dtor_of(clsq) is not None:
                self.scopes[-1].objs.append(('&' + name, clsq))
            return
        d, isref = self.ty.decl(qt, name)
        if isref:
            if not init: raise Unsupported('uninitialised reference')
            s = self.full_expr(init[0])
            if self.temps: raise Unsupported('reference bound to class temporary')
            addr = s[2:-1] if (s.startswith('(*') and s.endswith(')') and self.balanced(s[2:-1])) else '&' + s
            self.flush('%s = %s;' % (d, addr))
            self.refs.add(v['id'])
            return
        if v.get('storageClass') == 'static': d = 'static ' + d
        if init:
            i0 = init[0]
            if i0['kind'] == 'CXXConstructExpr' and not i0.get('inner'):
                self.flush(d.replace('const ', '', 1) + ';' if False else '%s = {0};' % d if clsq else '%s;' % d); return
            s = self.full_expr(i0)
            self.flush('%s = %s;' % (d, s))
        else:
            self.out.append(self.pad + d + ';')
    def ret(self, n, ind):
        pad = self.pad
        ch = n.get('inner', [])
        if not ch:
            for l in self.cleanup_to({'function'}): self.out.append(pad + l)
            self.out.append(pad + 'return;'); return
        if self.ret_class:
            self.construct_into('__ret', ch[0], self.ret_class)
            self.flush()
            for l in self.cleanup_to({'function'}): self.out.append(pad + l)
            self.out.append(pad + 'return;'); return
        s = self.full_expr(ch[0])
        if self.ret_isref:
            s = s[2:-1] if (s.startswith('(*') and s.endswith(')') and self.balanced(s[2:-1])) else '&' + s
        cl = None
        if self.temps or any(sc.objs for sc in self.scopes):
            t = self.newtmp('__r')
            self.pre.append('%s %s = %s;' % (self.ret_c, t, s))
            self.flush()
            for l in self.cleanup_to({'function'}): self.out.append(pad + l)
            self.out.append(pad + 'return %s;' % t)
        else:
            self.flush('return %s;' % s)
    def s_block(self, n, ind):
        if n['kind'] == 'CompoundStmt': self.s(n, ind)
        else:
            self.out.append('    ' * ind + '{')
            self.scopes.append(Scope('block'))
            self.s(n, ind + 1)
            self.scopes.pop()
            self.out.append('    ' * ind + '}')
    # ---- loops
    def break_target(self):
        for c in reversed(self.cutstack):
            return c['brk'] if c else None
        return None
    def continue_target(self):
        for c, sc in zip(reversed(self.cutstack), reversed([s for s in self.scopes if s.kind in ('loop', 'switch')])):
            if sc.kind == 'loop': return c['cont'] if c else None
        return None
    def is_false_literal(self, n):
        while n['kind'] in ('ImplicitCastExpr', 'ParenExpr', 'ConstantExpr'): n = n['inner'][0]
        return (n['kind'] == 'CXXBoolLiteralExpr' and not n['value']) or (n['kind'] == 'IntegerLiteral' and n['value'] == '0')
    def loop(self, n, ind):
        k = n['kind']; pad = '    ' * ind
        if k == 'DoStmt' and self.is_false_literal(n['inner'][1]):
            # macro block do { ... } while (0): plain block, not a loop ordinal
            body = n['inner'][0]
            if self.contains_break(body): raise Unsupported('break inside do{}while(0)')
            self.s_block(body, ind); return
        no = self.loopno; self.loopno += 1
        lspec = self.fspec.get('loops', {}).get(no)
        self.loops_seen.append(no)
        init = cond = inc = None
        if k == 'ForStmt':
            init, cv, cond, inc, body = n['inner']
            if cv and cv.get('kind'): raise Unsupported('for condvar')
        elif k == 'WhileStmt':
            cond, body = n['inner'][0], n['inner'][-1]
            if len(n['inner']) > 2: raise Unsupported('while condvar')
        else:
            body, cond = n['inner']
        self.out.append(pad + '{ /* loop %d of %s */' % (no, self.cur_q))
        self.scopes.append(Scope('block'))
        self.pad = pad + '    '
        if init and init.get('kind'): self.s(init, ind + 1)
        conds = '1'
        def cond_text():
            if cond and cond.get('kind'):
                s = self.full_expr(cond)
                if self.pre or self.temps: raise Unsupported('loop condition with temporaries')
                return s
            return '1'
        incs = None
        if lspec and lspec.get('mode') == 'cut':
            self.loop_cut(n, k, no, lspec, cond_text, inc, body, ind + 1)
        else:
            p1 = pad + '    '
            c = cond_text()
            if inc and inc.get('kind'):
                incs = self.full_expr(inc)
                if self.pre or self.temps: raise Unsupported('loop increment with temporaries')
            marker = '/*@LOOP %s %d@*/' % (self.cur_c, no)
            if k == 'ForStmt': self.out.append(p1 + 'for (; %s; %s)' % (c, incs or ''))
            elif k == 'WhileStmt': self.out.append(p1 + 'while (%s)' % c)
            else: self.out.append(p1 + 'do')
            if k != 'DoStmt': self.out.append(p1 + marker)
            self.scopes.append(Scope('loop')); self.cutstack.append(None)
            if lspec and (lspec.get('body_start') or lspec.get('body_end')):
                self.out.append(p1 + '{')
                for g in lspec.get('body_start', []): self.out.append(p1 + '    ' + g)
                self.s_block(body, ind + 2)
                for g in lspec.get('body_end', []): self.out.append(p1 + '    ' + g)
                self.out.append(p1 + '}')
            else:
                self.s_block(body, ind + 1)
            self.cutstack.pop(); self.scopes.pop()
            if k == 'DoStmt':
                self.out.append(p1 + marker)
                self.out.append(p1 + 'while (%s);' % c)
        self.pad = pad + '    '
        for addr, clsq in reversed(self.scopes[-1].objs):
            for l in self.emit_dtor_call(addr, clsq): self.out.append(self.pad + l)
        self.scopes.pop()
        self.out.append(pad + '}')
    def contains_break(self, n):
        if not isinstance(n, dict): return False
        if n.get('kind') in ('BreakStmt', 'ContinueStmt'): return True
        if n.get('kind') in ('WhileStmt', 'ForStmt', 'DoStmt', 'SwitchStmt'): return False
        return any(self.contains_break(c) for c in n.get('inner', []))
    def loop_cut(self, n, k, no, ls, cond_text, inc, body, ind):
        """textbook loop cutting (DESIGN.md section 3, mode B): assert INV; havoc; assume INV; one arbitrary iteration; assume(0)"""
        p = '    ' * ind; f = self.cur_c; tag = '%s.loop%d' % (f, no)
        brk = '__brk_%s_%d' % (f, no); cont = '__cont_%s_%d' % (f, no)
        o = self.out.append
        for g in ls.get('before', []): o(p + g)
        for i, inv in enumerate(ls.get('invariants', [])):
            o(p + '__CPROVER_assert(%s, "%s.invariant_base.%d");' % (inv, tag, i + 1))
        for name, expr in ls.get('entry', []):           # snapshots usable as loop-entry values
            o(p + '__typeof__(%s) %s = %s;' % (expr, name, expr))
        for h in ls.get('havoc', []):
            h = h.strip()
            m = re.match(r'^slice\((.*),\s*(.*)\)$', h)
            mo = re.match(r'^object\((.*)\)$', h)
            if m: o(p + 'if ((%s) != 0) __CPROVER_havoc_slice(%s, %s);' % (m.group(1), m.group(1), m.group(2)))
            elif mo: o(p + 'if ((%s) != 0) __CPROVER_havoc_object(%s);' % (mo.group(1), mo.group(1)))
            else: o(p + '{ __typeof__(%s) __nd; %s = __nd; }' % (h, h))
        for lhs, rhs in ls.get('pin', []):
            o(p + '%s = %s;' % (lhs, rhs))
        for inv in ls.get('invariants', []):
            o(p + '__CPROVER_assume(%s);' % inv)
        dec = ls.get('decreases')
        if dec: o(p + 'size_t __dec_%d = (size_t)(%s);' % (no, dec))
        self.scopes.append(Scope('loop')); self.cutstack.append({'brk': brk, 'cont': cont})
        def tail(pp):
            o(pp + '%s: ;' % cont)
        def step(pp):
            for g in ls.get('body_end', []): o(pp + g)
            for i, inv in enumerate(ls.get('invariants', [])):
                o(pp + '__CPROVER_assert(%s, "%s.invariant_step.%d");' % (inv, tag, i + 1))
            for lhs, rhs in ls.get('pin', []):
                o(pp + '__CPROVER_assert(%s == %s, "%s.invariant_step.pin %s");' % (lhs, rhs, tag, lhs))
            if dec: o(pp + '__CPROVER_assert((size_t)(%s) < __dec_%d, "%s.decreases");' % (dec, no, tag))
            o(pp + '__CPROVER_assume(0);')
        if k == 'DoStmt':
            for g in ls.get('body_start', []): o(p + g)
            self.s_block(body, ind)
            tail(p)
            c = cond_text()
            o(p + 'if (%s) {' % c); step(p + '    '); o(p + '}')
        else:
            c = cond_text()
            o(p + 'if (%s) {' % c)
            for g in ls.get('body_start', []): o(p + '    ' + g)
            self.s_block(body, ind + 1)
            tail(p + '    ')
            if inc and inc.get('kind'):
                self.pad = p + '    '
                self.flush(self.full_expr(inc) + ';')
            step(p + '    ')
            o(p + '}')
        o(p + '%s: ;' % brk)
        for g in ls.get('after', []): o(p + g)
        self.cutstack.pop(); self.scopes.pop()
    # ---- function
    def function(self, fid):
        q, n, cls = self.ix.funcs[fid]
        body = [c for c in n.get('inner', []) if c.get('kind') == 'CompoundStmt']
        if not body: raise Unsupported('no body for ' + q)
        cname = self.ix.cname(fid)
        self.cur_q = q; self.cur_c = cname
        self.fspec = self.spec.get(cname, self.spec.get(q, {}))
        self.refs = set(); self.out = []; self.loopno = 0; self.loops_seen = []; self.cur_fid = fid; self.locals = set()
        self.pre = []; self.temps = []; self.scopes = [Scope('function')]; self.cutstack = []
        self.post_call_check = False; self.stmt_level = False; self.exceptions = set()
        try:
            return self._function(fid, q, n, cls, body, cname)
        except Unsupported as ex:
            raise Unsupported('%s: %s' % (q, ex))
    def _function(self, fid, q, n, cls, body, cname):
        head, info = self.prototype(fid)
        self.ret_c = info['ret_c']; self.ret_class = info['ret_class']; self.ret_isref = info['ret_isref']
        for pid in info['refs']: self.refs.add(pid)
        self.pad = ''
        if n['kind'] == 'CXXConstructorDecl':
            self.out.append('{')
            self.pad = '    '
            inits = [c for c in n.get('inner', []) if c.get('kind') == 'CXXCtorInitializer']
            rec = self.ix.records[cls]
            fields = [c for c in rec.get('inner', []) if c.get('kind') == 'FieldDecl']
            done = set()
            constructed = []
            for f in fields:
                ini = [i for i in inits if i.get('anyInit', {}).get('name') == f['name']]
                fq = self.is_class_type(self.qt(f)) if not self.qt(f).endswith(']') else None
                if ini:
                    ie = ini[0]['inner'][0]
                    if fq and (self.dtor_of(fq) is not None or self.strip_wrappers(ie)['kind'] in ('CXXConstructExpr',)):
                        self.construct_into('&self->%s' % f['name'], ie, fq); self.flush()
                    elif self.qt(f).endswith(']'):
                        iek = self.strip_wrappers(ie)
                        if iek['kind'] in ('ImplicitValueInitExpr', 'InitListExpr', 'CXXScalarValueInitExpr') and not iek.get('inner'):
                            self.flush('memset(self->%s, 0, sizeof(self->%s));' % (f['name'], f['name']))
                        elif iek['kind'] == 'ImplicitValueInitExpr':
                            self.flush('memset(self->%s, 0, sizeof(self->%s));' % (f['name'], f['name']))
                        else: raise Unsupported('array member initialiser ' + iek['kind'])
                    else:
                        self.flush('self->%s = %s;' % (f['name'], self.full_expr(ie)))
                elif fq and (self.dtor_of(fq) is not None):
                    # default-construct class member
                    short = fq.split('::')[-1].split('<')[0]
                    dfid = None
                    for i in self.ix.byname.get(fq + '::' + short, []):
                        _, ps, _ = split_fn_type(self.ix.funcs[i][1]['type']['qualType'])
                        if not ps: dfid = i
                    if dfid is None: raise Unsupported('no default ctor for member of ' + fq)
                    self.flush('%s(&self->%s);' % (self.fname(dfid), f['name']))
                if fq and self.dtor_of(fq) is not None:
                    # members constructed so far are destroyed if the constructor body throws
                    self.scopes[0].objs.append(('&self->%s' % f['name'], fq))
            for i in inits:
                if 'anyInit' not in i:
                    if i.get('baseInit'): raise Unsupported('base class initialiser')
            # constructor body: on normal completion members stay alive -> drop them from the scope before closing
            ctor_members = list(self.scopes[0].objs)
            self.s(body[0], 1)
            self.out.append('}')
            # the member-cleanup registered in scopes[0] is only used on exception paths (exc_check / throw)
        else:
            self.s(body[0], 0)
        missing = [l for l in (self.fspec.get('loops') or {}) if l not in self.loops_seen]
        if missing:
            # the code has fewer loops than the contract file names (a loop was removed or restructured): the orphaned loop contracts are
            # dropped, the function's postconditions are still checked on the new body; the job's vacuity guard reports the missing obligations
            self.log.append('loop contract(s) %s of %s have no loop in the current code (dropped)' % (missing, q))
        text = head + '\n/*@CONTRACT %s@*/\n' % cname + '\n'.join(self.out) + '\n'
        return text, {'cname': cname, 'qual': q, 'loops': self.loopno, 'throws': sorted(self.exceptions),
                      'range': self.src_range(n), 'proto': head}
    def src_range(self, n):
        r = n.get('range', {}); b = r.get('begin', {}); e = r.get('end', {})
        def ln(x): return x.get('line') or x.get('expansionLoc', {}).get('line') or x.get('spellingLoc', {}).get('line')
        f = n.get('loc', {}).get('file') or b.get('file') or n.get('loc', {}).get('includedFrom', {}).get('file')
        return {'file': f, 'begin': ln(n.get('loc', {})) or ln(b), 'end': ln(e)}
    def prototype(self, fid):
        q, n, cls = self.ix.funcs[fid]
        cname = self.ix.cname(fid)
        ret, ptypes, trail = split_fn_type(n['type']['qualType'])
        ps = []; refs = []
        is_method = cls is not None and n['kind'] in ('CXXMethodDecl', 'CXXConstructorDecl', 'CXXDestructorDecl', 'CXXConversionDecl') and n.get('storageClass') != 'static'
        ret_class = None; ret_isref = False
        if n['kind'] in ('CXXConstructorDecl', 'CXXDestructorDecl'): ret_c = 'void'
        else:
            rq = n['type'].get('desugaredQualType', n['type']['qualType'])
            ret, _, _ = split_fn_type(rq)
            if ret.endswith('&'): ret_isref = True
            rc = self.is_class_type(ret) if not ret.endswith(('&', '*')) else None
            if rc:
                ret_class = rc; ret_c = 'void'
                ps.append('struct %s *__ret' % cident(rc))
            else:
                ret_c = self.ty.cast(ret)
        if is_method:
            const = 'const ' if re.search(r'\bconst\b', trail) else ''
            self.ix.need_record(cls)
            ps.append('%sstruct %s *self' % (const, cident(cls)))
        pi = 0
        for p in n.get('inner', []):
            if p.get('kind') == 'ParmVarDecl':
                pname = p.get('name') or '_unnamed%d' % pi
                d, isref = self.ty.decl(self.qt(p), pname)
                if isref: refs.append(p['id'])
                else:
                    pc = self.is_class_type(self.qt(p)) if not self.qt(p).endswith('*') else None
                    if pc and self.dtor_of(pc) is not None: raise Unsupported('class-typed by-value parameter in ' + q)
                ps.append(d); pi += 1
        if n.get('variadic'): ps.append('...')
        head = '%s %s(%s)' % (ret_c, cname, ', '.join(ps) or 'void')
        return head, {'ret_c': ret_c, 'ret_class': ret_class, 'ret_isref': ret_isref, 'refs': refs}

# ---------------------------------------------------------------------------
# records, enums, globals
# ---------------------------------------------------------------------------
def record_struct(ix, ty, q):
    n = ix.records[q]
    lines = ['struct %s {' % cident(q)]
    nf = 0
    for i, b in enumerate(n.get('bases', []) or []):
        # a (single, non-virtual) base class becomes the first member; derived-to-base conversions stay unsupported, so only
        # methods that use the derived class's own members can be extracted (the sinks' append / append_char: C17)
        bt = b.get('type', {}).get('desugaredQualType') or b.get('type', {}).get('qualType')
        if i > 0 or b.get('isVirtual'): raise Unsupported('record with several / virtual base classes: ' + q)
        lines.append('    ' + ty.decl(bt, '__base')[0] + ';'); nf += 1
    for c in n.get('inner', []):
        if c.get('kind') == 'FieldDecl':
            qt = c['type'].get('desugaredQualType', c['type']['qualType'])
            d, isref = ty.decl(qt, c['name']); lines.append('    ' + d.replace('const ', '') + ';'); nf += 1
    if nf == 0: lines.append('    char __empty;')
    lines.append('};')
    return '\n'.join(lines)

def enum_decl(ix, q):
    lst, scoped = ix.enumdecls[q]
    items = []
    for cname, val in lst:
        items.append('%s = %s' % (cname, val) if val is not None else cname)
    if q.endswith('(anonymous)'):
        return 'enum { %s };' % ', '.join(items)
    return 'typedef enum { %s } %s;' % (', '.join(items), cident(q))

# ---------------------------------------------------------------------------
# driver
# ---------------------------------------------------------------------------
class Extraction:
    def __init__(self, dump_path):
        self.ix = Index()
        objs = load_objs(dump_path)
        for o in objs:
            # explicit instantiations `template class ST::buffer<T>;` are printed without their namespace context
            ctx = ['ST'] if (o.get('kind') == 'ClassTemplateSpecializationDecl' and o.get('name') == 'buffer') else ['_ST_PRIVATE'] if (o.get('kind') == 'ClassTemplateSpecializationDecl' and o.get('name') == 'ostream_format_writer') else []
            self.ix.walk(o, ctx)
        self.ix.resolve_out_of_line(objs)
        self.ix.add_foreign_vector()
        self.objs = objs
    def select(self, sel):
        """selector: 'Qualified::name' or 'Qualified::name|<param-type substring>' or an exact C name; returns definition ids"""
        name, _, sig = sel.partition('|')
        ids = [i for i in self.ix.byname.get(name, []) if self.ix.has_body(i)]
        if not ids:
            # maybe a C name
            for fid in self.ix.funcs:
                if self.ix.has_body(fid) and self.ix.cname(fid) == name: ids.append(fid)
        if sig:
            ids = [i for i in ids if sig in self.ix.funcs[i][1]['type']['qualType']]
        return ids
    def extract(self, selectors, spec=None, deep=True, stubs=()):
        """returns dict(text=..., functions=[info], protos=[...], externals=[...], log=[...])"""
        em = Emitter(self.ix, spec)
        queue = []
        for s in selectors:
            ids = self.select(s)
            if len(ids) != 1:
                raise Unsupported('selector %r matches %d definitions (must-fire rule)' % (s, len(ids)))
            queue.append(ids[0])
        done = []; texts = {}; infos = {}
        protos_only = []
        while queue:
            fid = queue.pop(0)
            if fid in done: continue
            done.append(fid)
            cn = self.ix.cname(fid)
            if cn in stubs and fid not in [self.select(s)[0] for s in selectors]:
                protos_only.append(fid); continue
            if not self.ix.has_body(fid):
                protos_only.append(fid); continue
            before = list(em.needed)
            t, info = em.function(fid)
            texts[fid] = t; infos[fid] = info
            if deep:
                for nid in em.needed:
                    if nid not in done and nid not in queue: queue.append(nid)
        # anything referenced but not extracted gets a prototype
        for nid in em.needed:
            if nid not in texts and nid not in protos_only: protos_only.append(nid)
        protos = []
        for fid in list(texts) + protos_only:
            try:
                h, _ = em.prototype(fid)
            except Unsupported as ex:
                raise Unsupported('prototype of %s: %s' % (self.ix.funcs[fid][0], ex))
            protos.append((fid, h))
        # globals
        gl = []; gdone = []
        def add_global(q, vid):
            if vid in gdone: return
            gdone.append(vid)
            node = self.ix.vars[vid][1]
            qt = node['type'].get('desugaredQualType', node['type']['qualType'])
            init = [c for c in node.get('inner', []) if c.get('kind') and not c['kind'].endswith('Attr')]
            d, _ = em.ty.decl(qt, cident(q))
            if not init: raise Unsupported('global without initialiser ' + q)
            em.pre = []; em.temps = []; em.refs = set(); em.scopes = [Scope('function')]; em.stmt_level = False
            before = len(em.globals_needed)
            v = self.ix._const_value(init[0])
            if v is None: v = em.e(init[0])
            if em.pre: raise Unsupported('global initialiser with side effects ' + q)
            for q2, v2 in em.globals_needed[before:]: add_global(q2, v2)     # dependencies first
            if not re.search(r'[\[\*]', d) and not em.ty.cast(qt).replace('const ', '').startswith('struct ') and not str(v).lstrip().startswith('{'):
                # scalar namespace-scope constant: a macro, so that it stays an integer constant expression in C (case labels, array bounds)
                gl.append('#define %s ((%s)(%s))' % (cident(q), em.ty.cast(qt).replace('const ', ''), v))
            else:
                gl.append('static %s = %s;' % (d, v))
        i = 0
        while i < len(em.globals_needed):
            add_global(*em.globals_needed[i]); i += 1
        # records in dependency order
        recs = []
        def add_rec(q):
            if q in [r for r, _ in recs]: return
            n = self.ix.records[q]
            for c in n.get('inner', []):
                if c.get('kind') == 'FieldDecl':
                    fq = em.is_class_type(c['type'].get('desugaredQualType', c['type']['qualType']).split('[')[0]) if '*' not in c['type']['qualType'] else None
                    if fq: add_rec(fq)
            recs.append((q, record_struct(self.ix, em.ty, q)))
        i = 0
        while i < len(self.ix.needed_records):
            add_rec(self.ix.needed_records[i]); i += 1
        enums = [enum_decl(self.ix, q) for q in self.ix.needed_enums]
        order = [fid for fid in done if fid in texts]
        return {'enums': enums, 'records': [r for _, r in recs], 'globals': gl,
                'protos': [h + ';' for _, h in protos], 'proto_ids': [(self.ix.cname(fid), h) for fid, h in protos],
                'functions': [infos[f] for f in order], 'texts': [texts[f] for f in order],
                'externals': sorted(em.externals), 'log': em.log}

def self_enum_names(ix):
    return set(cident(q) for q in ix.enumdecls)

def render(ex):
    parts = []
    parts += ex['enums'] + [''] + ex['records'] + [''] + ex['globals'] + [''] + ex['protos'] + ['']
    parts += ex['texts']
    return '\n'.join(parts)

if __name__ == '__main__':
    X = Extraction(sys.argv[1])
    if sys.argv[2] == '--list':
        for q in sorted(X.ix.byname):
            for fid in X.ix.byname[q]:
                print(X.ix.cname(fid), '|', q, '|', X.ix.funcs[fid][1]['type']['qualType'], '|', 'body' if X.ix.has_body(fid) else 'decl')
        sys.exit(0)
    deep = True
    sels = [a for a in sys.argv[2:] if not a.startswith('--')]
    if '--shallow' in sys.argv: deep = False
    try:
        ex = X.extract(sels, deep=deep)
    except Unsupported as e:
        print('UNSUPPORTED:', e, file=sys.stderr); sys.exit(2)
    print(render(ex))
    print('/* externals: %s */' % ', '.join(ex['externals']))
