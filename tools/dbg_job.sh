#!/bin/bash
# usage: dbg_job.sh <PROP> <job-regex> [extra cbmc flags]  — build the job's goto binary, run cbmc --stop-on-fail, print the first violated property
P=$1; J=$2; shift 2
W=$(VERIF_BUILD_ONLY=1 /verif/bin/check $P --no-evidence --only "$J" --keep 2>&1 | grep -o '/tmp/stverif_[a-z0-9_]*' | tail -1)
echo "workspace $W"
for a in $W/*/a.gb; do
  echo "== $a"
  ( time timeout ${DBG_TIMEOUT:-900} cbmc $a --bounds-check --pointer-check --signed-overflow-check --div-by-zero-check --undefined-shift-check --drop-unused-functions --object-bits 10 --unwind 70 --unwinding-assertions --sat-solver cadical --stop-on-fail "$@" > $W/dbg.log 2>&1 ) 2>&1 | grep real
  grep -A3 "^Violated property" $W/dbg.log | cut -c1-400; tail -1 $W/dbg.log
done
