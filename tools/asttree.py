import json,sys
def load(path):
    dec=json.JSONDecoder(); s=open(path).read(); i=0; objs=[]
    while True:
        j=s.find('{',i)
        if j<0: break
        # skip "Dumping xxx:" lines
        o,k=dec.raw_decode(s,j); objs.append(o); i=k
    return objs
def show(n,ind=0,maxd=40):
    if not isinstance(n,dict): return
    k=n.get('kind','?')
    bits=[k]
    for key in ('name','opcode','value','castKind','valueCategory'):
        if key in n and not (key=='valueCategory' and n[key]=='prvalue'): bits.append(f"{key}={n[key]}")
    t=n.get('type',{}).get('qualType')
    if t: bits.append('<'+t+'>')
    rd=n.get('referencedDecl')
    if rd: bits.append('->'+rd.get('kind','')+':'+str(rd.get('name'))+' '+rd.get('type',{}).get('qualType',''))
    if 'referencedMemberDecl' in n: bits.append('member:'+n.get('name',''))
    for key in ('isArrow','elidable','isPostfix','hadMultipleCandidates','isImplicit'):
        if n.get(key): bits.append(key)
    ctor=n.get('ctorType');
    print('  '*ind+' '.join(bits))
    if ind<maxd:
        for c in n.get('inner',[]): show(c,ind+1,maxd)
if __name__=='__main__':
    objs=load(sys.argv[1])
    want=sys.argv[2] if len(sys.argv)>2 else None
    for o in objs:
        if want and o.get('name')!=want: continue
        show(o)
        print('-----')
