#!/usr/bin/env python3
"""regenerate /verif/MANIFEST.json from checks/registry.py (claimed properties) and checks/not_applicable.json"""
import json, os, sys
VERIF = os.path.dirname(os.path.dirname(os.path.abspath(__file__)))
sys.path.insert(0, VERIF); sys.path.insert(0, os.path.join(VERIF, 'tools'))
from checks import registry
ids = [json.loads(l)['id'] for l in open(os.path.join(VERIF, 'properties.jsonl'))]
na = json.load(open(os.path.join(VERIF, 'checks', 'not_applicable.json')))
checks = []
for pid in ids:
    if pid not in registry.PROPS or not registry.jobs_for(pid, 'quick'): continue
    m = registry.PROPS[pid]
    checks.append({
        'property_id': pid,
        'quick_cmd': 'bin/check %s --tier quick' % pid,
        'thorough_cmd': 'bin/check %s --tier thorough' % pid,
        'evidence_file': 'evidence/%s.json' % pid,
        'replay_cmd_template': 'cat {path}   # replay file: failed obligation, CBMC inputs, bounded re-run, native replay on the real headers',
        'engine': 'cbmc-contracts',
        'level_claimed': {'category': m.get('level', 'proof'), 'text': m['explanation'], 'design_ref': m.get('design_ref', 'DESIGN.md section 5, ' + pid)},
        'level_note': m.get('level_note', 'Trusted: ' + '; '.join(m.get('trusted_base', [])) + '. Assumed: ' + '; '.join(m.get('assumptions', []) + registry.COMMON_ASSUMPTIONS[:3])),
        'technique': m.get('technique', 'function and loop contracts on C extracted mechanically from clang\'s AST of /repo, discharged by CBMC 6.11 (loop cutting / --dfcc), counterexamples replayed natively'),
    })
claimed = set(c['property_id'] for c in checks)
man = {
    'version': 1,
    'setup_cmd': 'true',
    'hooks': {'guard': 'ST_VERIF', 'enable': 'no source hooks are needed: contracts are spliced into C text extracted from /repo on every run (DESIGN.md section 8)',
              'baseline_off_cmd': 'cmake -G Ninja -S /repo -B /repo/_build -DST_BUILD_TESTS=ON -DFETCHCONTENT_SOURCE_DIR_GTEST=/usr/src/googletest -DCMAKE_BUILD_TYPE=RelWithDebInfo && cmake --build /repo/_build && ctest --test-dir /repo/_build -j8 --timeout 900 && /repo/_build/test/st_gtests',
              'source_commits': [], 'add_only': True},
    'engines': [{'name': 'cbmc-contracts', 'path': 'bin/check', 'serves_properties': sorted(claimed),
                 'kind_free_text': 'contract-based deductive verification: tools/ast2c.py (clang JSON AST -> C), tools/spec.py (contract splicer, loop cutting), tools/runner.py (goto-cc / goto-instrument --dfcc / cbmc), checks/*.py (units, jobs, replay)'}],
    'checks': checks,
    'not_applicable': [{'property_id': i, 'reason': na.get(i, 'check not built yet (work in progress); see DESIGN.md section 10')} for i in ids if i not in claimed],
    'notes': 'exit 2 from a check means undecided (extraction break / tool error / timeout), never a violation; see DESIGN.md section 7',
}
json.dump(man, open(os.path.join(VERIF, 'MANIFEST.json'), 'w'), indent=1)
print('claimed:', sorted(claimed))
