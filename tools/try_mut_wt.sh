#!/bin/bash
# usage: try_mut_wt.sh <PROP> <patch.diff> [check args] — run a check against a seeded change applied to a SCRATCH worktree of /repo
# (the working tree of /repo itself is not touched; the check reads the scratch tree through VERIF_REPO)
P=$1; D=$(readlink -f "$2"); shift 2
WT=$(mktemp -d /tmp/mutwt_XXXXXX); rmdir $WT
git -C /repo worktree add --detach $WT HEAD >/dev/null 2>&1 || { echo "cannot create worktree"; exit 3; }
mkdir -p $WT/_build/include; cp /repo/_build/include/st_config.h $WT/_build/include/ 2>/dev/null
if git -C $WT apply "$D"; then
  VERIF_REPO=$WT /verif/bin/check $P --no-evidence "$@" 2>&1 | grep -E "^(VIOLATION|KNOWN|UNDECIDED|OK|ALSO)" | cut -c1-300
  echo "exit=${PIPESTATUS[0]}"
else echo "PATCH DOES NOT APPLY"; fi
git -C /repo worktree remove --force $WT
