#!/usr/bin/env python3
"""runner.py: pipeline shared by all checks.

  dump AST of /repo's working tree -> extract units (ast2c) -> splice contracts (spec)
  -> goto-cc -> [goto-instrument --dfcc] -> cbmc --json-ui --trace -> obligations.

Verdict rules are DESIGN.md section 7: FAILURE of an obligation = violation (exit 1),
tool error / timeout / extraction break = undecided (exit 2), never a violation.
"""
import json, os, re, subprocess, sys, time, shutil, tempfile, hashlib, concurrent.futures, resource, signal

VERIF = os.path.dirname(os.path.dirname(os.path.abspath(__file__)))
REPO = os.environ.get('VERIF_REPO', '/repo')
sys.path.insert(0, os.path.join(VERIF, 'tools'))
import ast2c, spec as specmod

IGNORED_CLASSES = [  # obligation classes deliberately not part of any claim (DESIGN.md section 3)
    re.compile(r'pointer relation'), re.compile(r'pointer arithmetic'),
]
LEFTOVER_UNWIND = 70   # loops without a contract (none on the unchanged tree) are unwound this far with unwinding assertions: failure = undecided

class Undecided(Exception):
    pass

def sh(cmd, timeout=None, cwd=None, env=None, mem_gb=24):
    def lim():
        resource.setrlimit(resource.RLIMIT_AS, (mem_gb << 30, mem_gb << 30))
        os.setsid()
    t0 = time.time()
    p = subprocess.Popen(cmd, stdout=subprocess.PIPE, stderr=subprocess.PIPE, cwd=cwd, env=env, preexec_fn=lim, text=True)
    try:
        out, err = p.communicate(timeout=timeout)
        return p.returncode, out, err, time.time() - t0
    except subprocess.TimeoutExpired:
        try: os.killpg(p.pid, signal.SIGKILL)
        except Exception: pass
        p.communicate()
        return -9, '', 'TIMEOUT after %ss' % timeout, time.time() - t0

class Workspace:
    def __init__(self):
        self.dir = tempfile.mkdtemp(prefix='stverif_')
        os.environ['TMPDIR'] = self.dir
        self.units = {}
        self.X = None
    def cleanup(self):
        shutil.rmtree(self.dir, ignore_errors=True)
    def config_include(self):
        """st_config.h: use /repo/_build/include if present, else generate from st_config.h.in (same substitutions as CMake here)"""
        p = os.path.join(REPO, '_build', 'include')
        if os.path.exists(os.path.join(p, 'st_config.h')): return p
        d = os.path.join(self.dir, 'cfg'); os.makedirs(d, exist_ok=True)
        t = open(os.path.join(REPO, 'include', 'st_config.h.in')).read()
        cm = open(os.path.join(REPO, 'CMakeLists.txt')).read()
        m = re.search(r'project\(string_theory\s+VERSION\s+(\d+)\.(\d+)', cm) or re.search(r'VERSION\s+(\d+)\.(\d+)', cm)
        major, minor = (m.group(1), m.group(2)) if m else ('3', '9')
        t = t.replace('@string_theory_VERSION_MAJOR@', major).replace('@string_theory_VERSION_MINOR@', minor) \
             .replace('@PROJECT_VERSION_MAJOR@', major).replace('@PROJECT_VERSION_MINOR@', minor)
        t = re.sub(r'#cmakedefine (ST_HAVE_INT64|ST_HAVE_DEPRECATED_ATTR|ST_HAVE_NODISCARD_ATTR|ST_HAVE_CXX17_STRING_VIEW|ST_HAVE_CXX17_FILESYSTEM|ST_HAVE_CXX20_U8_FSPATH|ST_HAVE_CXX20_CHAR8_TYPES|ST_ENABLE_STL_STRINGS|ST_ENABLE_STL_FILESYSTEM)\b', r'#define \1', t)
        t = re.sub(r'#cmakedefine \w+', '', t)
        t = re.sub(r'@ST_VERSION_STR@|@PROJECT_VERSION@', '%s.%s' % (major, minor), t)
        open(os.path.join(d, 'st_config.h'), 'w').write(t)
        return d
    def dump(self):
        if self.X: return self.X
        out = os.path.join(self.dir, 'all.json')
        cmd = ['clang++', '-std=c++20', '-fsyntax-only', '-I' + os.path.join(REPO, 'include'), '-I' + self.config_include(),
               '-Xclang', '-ast-dump=json', '-Xclang', '-ast-dump-filter=ST', os.path.join(VERIF, 'instantiate', 'tu.cpp')]
        with open(out, 'w') as f:
            p = subprocess.run(cmd, stdout=f, stderr=subprocess.PIPE, text=True)
        if p.returncode != 0:
            raise Undecided('clang failed on /repo working tree: ' + p.stderr[:2000])
        self.X = ast2c.Extraction(out)
        return self.X
    def build_unit(self, unit):
        """unit: dict(name, functions=[selectors], stubs=[cnames kept as prototypes], spec=path, harness=path, nothrow=[qualnames])"""
        if unit['name'] in self.units: return self.units[unit['name']]
        X = self.dump()
        sp = {}
        for s in unit.get('spec', []) if isinstance(unit.get('spec'), list) else [unit['spec']] if unit.get('spec') else []:
            part = specmod.parse(os.path.join(VERIF, s))
            for k, v in part.items():
                if k in sp: raise Undecided('duplicate spec for %s' % k)
                sp[k] = v
        sp['__nothrow__'] = set(unit.get('nothrow', []))
        try:
            ex = X.extract(unit['functions'], spec=sp, deep=unit.get('deep', True), stubs=set(unit.get('stubs', [])))
        except ast2c.Unsupported as e:
            raise Undecided('extraction: %s' % e)
        defined = set(f['cname'] for f in ex['functions'])
        protos = []
        for cname, h in ex['proto_ids']:
            if cname in defined: protos.append(h + ';')
            else: protos.append(h + '\n/*@CONTRACT %s@*/;' % cname)
        ex['protos'] = protos
        text = ast2c.render(ex)
        present = defined | set(c for c, _ in ex['proto_ids'])
        for k in sp:
            if k.startswith('__'): continue
            if k not in present: raise Undecided('spec names %s which is not in unit %s (must-fire rule)' % (k, unit['name']))
            fn = [f for f in ex['functions'] if f['cname'] == k]
        text, used = specmod.splice(text, sp, present)
        path = os.path.join(self.dir, unit['name'] + '.c')
        with open(path, 'w') as f:
            f.write('#include "%s"\n' % os.path.join(VERIF, 'contracts', 'prelude.h'))
            for inc in unit.get('include', []): f.write('#include "%s"\n' % os.path.join(VERIF, inc))
            f.write(text)
            f.write('\n#include "%s"\n' % os.path.join(VERIF, unit['harness']))
        info = {'path': path, 'functions': ex['functions'], 'externals': ex['externals'], 'spec': sp, 'log': ex.get('log', []),
                'sha': hashlib.sha256(text.encode()).hexdigest()[:16]}
        self.units[unit['name']] = info
        return info

def parse_cbmc_json(out):
    """returns (results list, status string, messages)"""
    try:
        data = json.loads(out)
    except Exception:
        return None, 'PARSE-ERROR', out[-2000:]
    results = None; status = None; msgs = []
    for item in data:
        if 'result' in item: results = item['result']
        if 'cProverStatus' in item: status = item['cProverStatus']
        if item.get('messageType') in ('ERROR',): msgs.append(item.get('messageText', ''))
    return results, status, '\n'.join(msgs)

def trace_inputs(trace):
    """last assigned value of every named variable in the trace (harness inputs are read from here)"""
    vals = {}
    for st in trace or []:
        if st.get('stepType') == 'assignment' and 'lhs' in st:
            v = st.get('value', {})
            vals[st['lhs']] = v.get('data', v.get('name'))
    return vals

def run_job(ws, unit, job, tier):
    """job: dict(name, entry, enforce=None, replace=[], loop_contracts=False, unwind=None, flags=[], timeout, solver)"""
    u = ws.build_unit(unit)
    d = os.path.join(ws.dir, re.sub(r'\W+', '_', job['name'])); os.makedirs(d, exist_ok=True)
    a = os.path.join(d, 'a.gb'); b = os.path.join(d, 'b.gb')
    rec = {'job': job['name'], 'unit': unit['name'], 'entry': job['entry'], 'backend': None, 'solver_s': 0.0, 'obligations': [], 'status': None}
    defs = ['-D' + x for x in job.get('defines', [])] + ['-DSTUB_' + x for x in unit.get('stubs', [])] + ['-DST_OBJECT_BITS=%d' % job.get('object_bits', 10)]
    rc, out, err, t = sh(['goto-cc', '--function', job['entry']] + defs + [u['path'], '-o', a], timeout=300)
    if rc != 0:
        rec['status'] = 'ERROR'; rec['detail'] = 'goto-cc: ' + (err or out)[-3000:]; return rec
    if os.environ.get('VERIF_BUILD_ONLY'):      # debugging aid: stop after goto-cc (use with bin/check --keep)
        rec['status'] = 'ERROR'; rec['detail'] = 'build only: ' + a; return rec
    cmdline = []
    target = a
    if job.get('enforce') or job.get('replace'):
        gi = ['goto-instrument', '--dfcc', job['entry']]
        if job.get('enforce'): gi += ['--enforce-contract', job['enforce']]
        for r in job.get('replace', []): gi += ['--replace-call-with-contract', r]
        if job.get('loop_contracts'): gi += ['--apply-loop-contracts']
        gi += [a, b]
        rc, out, err, t = sh(gi, timeout=job.get('timeout', 600))
        cmdline.append(' '.join(gi[:-2]))
        if rc != 0:
            rec['status'] = 'ERROR' if rc != -9 else 'TIMEOUT'; rec['detail'] = 'goto-instrument: ' + (err or out)[-3000:]; return rec
        target = b
    cb = ['cbmc', target, '--bounds-check', '--pointer-check', '--signed-overflow-check', '--div-by-zero-check', '--undefined-shift-check',
          '--json-ui', '--trace', '--drop-unused-functions', '--object-bits', str(job.get('object_bits', 10))]
    if job.get('unwind'): cb += ['--unwind', str(job['unwind']), '--unwinding-assertions']
    elif not job.get('loop_contracts'): cb += ['--unwind', str(LEFTOVER_UNWIND), '--unwinding-assertions']
    solver = job.get('solver', 'minisat')
    if solver == 'kissat': cb += ['--external-sat-solver', 'kissat']
    elif solver == 'cadical': cb += ['--sat-solver', 'cadical']
    cb += job.get('flags', [])
    rec['backend'] = 'cbmc 6.11 SAT (%s)' % solver
    cmdline.append(' '.join(cb))
    rec['cmd'] = ' && '.join(cmdline)
    # phase 1: list the properties and drop the classes that are deliberately not claimed (they may fail, and with a
    # non-incremental external SAT solver one failing property leaves all others UNKNOWN)
    rc, out, err, t = sh([c for c in cb if c != '--trace'] + ['--show-properties'], timeout=300)
    keep = []; dropped = 0
    try:
        for item in json.loads(out):
            for p in item.get('properties', []):
                if any(pt.search(p.get('description', '')) for pt in IGNORED_CLASSES): dropped += 1
                else: keep.append(p['name'])
    except Exception:
        rec['status'] = 'ERROR'; rec['detail'] = 'cbmc --show-properties: ' + (err or out)[-2000:]; return rec
    rec['ignored_properties'] = dropped
    if not keep:
        rec['status'] = 'ERROR'; rec['detail'] = 'no properties generated'; return rec
    for p in keep: cb += ['--property', p]
    rc, out, err, t = sh(cb, timeout=job.get('timeout', 600))
    rec['solver_s'] = round(t, 2)
    if rc == -9:
        rec['status'] = 'TIMEOUT'; rec['detail'] = err; return rec
    results, status, msgs = parse_cbmc_json(out)
    if results is None and '--trace' in cb:
        # CBMC 6.11 can hit an internal invariant while building a JSON trace; the verdict does not need the trace
        cb2 = [c for c in cb if c != '--trace']
        rc, out, err, t2 = sh(cb2, timeout=job.get('timeout', 600))
        rec['solver_s'] = round(t + t2, 2); rec['trace_unavailable'] = True
        if rc == -9:
            rec['status'] = 'TIMEOUT'; rec['detail'] = err; return rec
        results, status, msgs = parse_cbmc_json(out)
    if results is None:
        # last resort: plain-text output (the JSON UI itself can crash CBMC 6.11)
        cb3 = [c for c in cb if c not in ('--trace', '--json-ui')]
        rc, out, err, t3 = sh(cb3, timeout=job.get('timeout', 600))
        if rc == -9:
            rec['status'] = 'TIMEOUT'; rec['detail'] = err; return rec
        results = []
        for m in re.finditer(r'^\[([^\]]+)\] (?:line (\d+) )?(.*): (SUCCESS|FAILURE|UNKNOWN|ERROR)$', out, re.M):
            results.append({'property': m.group(1), 'description': m.group(3), 'status': m.group(4), 'sourceLocation': {'line': m.group(2), 'function': m.group(1).split('.')[0]}})
        rec['trace_unavailable'] = True
        if not results or ('VERIFICATION SUCCESSFUL' not in out and 'VERIFICATION FAILED' not in out):
            rec['status'] = 'ERROR'; rec['detail'] = 'cbmc: %s %s %s' % (status, msgs, (err or out or '')[-1500:]); return rec
    failed = []
    for r in results:
        desc = r.get('description', ''); name = r.get('property', '')
        ignored = any(p.search(desc) for p in IGNORED_CLASSES)
        ob = {'name': name, 'description': desc, 'status': r.get('status'), 'line': r.get('sourceLocation', {}).get('line'),
              'function': r.get('sourceLocation', {}).get('function'), 'ignored': ignored}
        if r.get('status') == 'FAILURE' and not ignored:
            ob['inputs'] = trace_inputs(r.get('trace'))
            failed.append(ob)
        rec['obligations'].append(ob)
    rec['status'] = 'FAILURE' if failed else 'SUCCESS'
    rec['failed'] = failed
    return rec

def run_job_retry(ws, unit, job, tier):
    """a job that times out with the external (non-incremental) kissat is retried once with the built-in incremental cadical:
    with several failing obligations kissat is re-run per obligation and can exceed any budget, cadical decides them in one run"""
    rec = run_job(ws, unit, job, tier)
    if rec.get('status') == 'TIMEOUT' and job.get('solver', 'minisat') == 'kissat':
        rec2 = run_job(ws, unit, dict(job, solver='cadical'), tier)
        rec2['retried_after_timeout'] = 'kissat'
        return rec2
    return rec

def run_jobs(ws, jobs, tier, workers=None):
    """jobs: list of (unit, job).  Runs in parallel; returns list of records in the same order."""
    workers = workers or min(14, max(1, (os.cpu_count() or 4) - 2))
    # build units serially first (extraction is cheap and raises Undecided early)
    for unit, job in jobs: ws.build_unit(unit)
    recs = [None] * len(jobs)
    with concurrent.futures.ThreadPoolExecutor(max_workers=workers) as pool:
        futs = {pool.submit(run_job_retry, ws, unit, job, tier): i for i, (unit, job) in enumerate(jobs)}
        for f in concurrent.futures.as_completed(futs):
            recs[futs[f]] = f.result()
    return recs
