#!/bin/bash
# usage: confirm_seed.sh <dir with patch.diff + demo.cpp> [--skip-tests]
# Confirms a seeded change in a SCRATCH worktree of /repo (never /repo itself):
#   1. patch applies to /repo HEAD and the tree still compiles,
#   2. the repository's own test suite (unedited) still passes with the change,
#   3. the demonstration fails with the change and passes without it.
# Prints one line "CONFIRM <dir> apply=.. build=.. tests=.. demo_clean=.. demo_mut=.. => KEEP|DROP" and writes <dir>/confirm.log
D=$(readlink -f "$1"); SKIP=$2
WT=$(mktemp -d /tmp/seedwt_XXXXXX); rmdir "$WT"
LOG="$D/confirm.log"; : > "$LOG"
git -C /repo worktree add --detach "$WT" HEAD >>"$LOG" 2>&1 || { echo "CONFIRM $D worktree-failed"; exit 3; }
cleanup() { git -C /repo worktree remove --force "$WT" >/dev/null 2>&1; rm -rf "$WT" /tmp/seeddemo_$$_*; }
trap cleanup EXIT
apply=no; build=skip; tests=skip; dc=?; dm=?
if git -C "$WT" apply "$D/patch.diff" >>"$LOG" 2>&1; then apply=yes; else
  echo "CONFIRM $D apply=no => DROP"; exit 1; fi
mkdir -p "$WT/_build/include"
if [ "$SKIP" != "--skip-tests" ]; then
  if (cd "$WT" && cmake -G Ninja -S . -B _build -DST_BUILD_TESTS=ON -DFETCHCONTENT_SOURCE_DIR_GTEST=/usr/src/googletest -DCMAKE_BUILD_TYPE=RelWithDebInfo && cmake --build _build -j6) >>"$LOG" 2>&1; then
    build=yes
    if (cd "$WT" && timeout 1200 ./_build/test/st_gtests) >>"$LOG" 2>&1 && grep -q "PASSED  \] 112 tests" "$LOG"; then tests=pass; else tests=FAIL; fi   # the suite is one gtest binary (no add_test: ctest finds nothing)
  else build=FAIL; fi
else
  cp /repo/_build/include/st_config.h "$WT/_build/include/"
fi
FLAGS="-std=c++20 -O1 -g -fsanitize=address,undefined -fno-sanitize-recover=undefined"
EXTRA=$(grep -o 'LDFLAGS:.*' "$D/demo.cpp" | head -1 | cut -d: -f2)
g++ $FLAGS -I/repo/include -I/repo/_build/include "$D/demo.cpp" -o /tmp/seeddemo_$$_clean -lpthread $EXTRA >>"$LOG" 2>&1 && { timeout 120 /tmp/seeddemo_$$_clean >>"$LOG" 2>&1; dc=$?; } || dc=buildfail
g++ $FLAGS -I"$WT/include" -I"$WT/_build/include" "$D/demo.cpp" -o /tmp/seeddemo_$$_mut -lpthread $EXTRA >>"$LOG" 2>&1 && { timeout 120 /tmp/seeddemo_$$_mut >>"$LOG" 2>&1; dm=$?; } || dm=buildfail
verdict=DROP
if [ "$apply" = yes ] && [ "$dc" = 0 ] && [ "$dm" != 0 ] && [ "$dm" != buildfail ] && { [ "$tests" = pass ] || [ "$SKIP" = "--skip-tests" ]; }; then verdict=KEEP; fi
echo "CONFIRM $D apply=$apply build=$build tests=$tests demo_clean=$dc demo_mut=$dm => $verdict"
