#!/usr/bin/env python3
"""promote confirmed seeded changes from seeded/_incoming/<P>/<m> to seeded/<P>-<m>/ (patch.diff, demo.cpp, README.txt, meta.json)
usage: promote_seed.py <confirm log>"""
import sys, os, re, json, shutil
V = os.path.dirname(os.path.dirname(os.path.abspath(__file__)))
for line in open(sys.argv[1]):
    m = re.match(r'CONFIRM (\S+)/(C\d\d)/(m\d) (.*) => (KEEP|DROP)', line)
    if not m or m.group(5) != 'KEEP': continue
    src = os.path.join(m.group(1), m.group(2), m.group(3)); pid = m.group(2); sid = '%s-%s' % (pid, m.group(3))
    dst = os.path.join(V, 'seeded', sid)
    if not os.path.isdir(src): continue
    os.makedirs(dst, exist_ok=True)
    for f in ('patch.diff', 'demo.cpp', 'README.txt'):
        if os.path.exists(os.path.join(src, f)): shutil.copy(os.path.join(src, f), os.path.join(dst, f))
    readme = open(os.path.join(dst, 'README.txt')).read() if os.path.exists(os.path.join(dst, 'README.txt')) else ''
    meta_p = os.path.join(dst, 'meta.json')
    meta = json.load(open(meta_p)) if os.path.exists(meta_p) else {}
    meta.update({'id': sid, 'property': pid, 'origin': 'written by an independent sub-agent given only the property text and a scratch worktree of /repo',
                 'summary': ' '.join(readme.split())[:700],
                 'needs_to_manifest': (re.search(r'(What is needed|Needs?|Needed|Trigger)[^:]*:(.*?)(\n\n|\Z)', readme, re.S) or [None, None, ''])[2].strip()[:600] or 'see README.txt',
                 'confirmed': {'how': 'tools/confirm_seed.sh in a scratch worktree of /repo HEAD: patch applies, tree builds, test/st_gtests (112 tests, unedited) passes with the change; demo.cpp (g++ -fsanitize=address,undefined) exits 0 without the change and non-zero with it',
                               'result': m.group(4)}})
    json.dump(meta, open(meta_p, 'w'), indent=1)
    shutil.rmtree(src)
    print('promoted', sid)
