#!/bin/bash
# usage: try_mut.sh <PROP> <patch.diff> [check args]   — apply a seeded change to /repo, run the check, undo
P=$1; D=$(readlink -f "$2"); shift 2
git -C /repo apply "$D" || { echo "PATCH DOES NOT APPLY"; exit 3; }
/verif/bin/check $P "$@" 2>&1 | grep -E "^(VIOLATION|KNOWN|UNDECIDED|OK)" | cut -c1-300
echo "exit=${PIPESTATUS[0]}"
git -C /repo checkout -- .
