#!/usr/bin/env python3
"""run the quick check of the broken property (and optionally others) against every kept seeded change, in scratch worktrees; record the outcome in meta.json
usage: sweep_seeded.py [-j N] [ids or property ids ...]"""
import sys, os, json, subprocess, re, concurrent.futures, tempfile
V = os.path.dirname(os.path.dirname(os.path.abspath(__file__)))
sys.path.insert(0, V); sys.path.insert(0, os.path.join(V, 'tools'))
args = sys.argv[1:]; J = 2
if args[:1] == ['-j']: J = int(args[1]); args = args[2:]
man = json.load(open(os.path.join(V, 'MANIFEST.json'))); claimed = set(c['property_id'] for c in man['checks'])
def run(sid):
    d = os.path.join(V, 'seeded', sid); meta = json.load(open(os.path.join(d, 'meta.json'))); pid = meta['property']
    extra = meta.get('also_check', [])
    out = {}
    for p in [pid] + extra:
        if p not in claimed: out[p] = 'property not claimed'; continue
        wt = tempfile.mkdtemp(prefix='mutwt_', dir='/tmp'); os.rmdir(wt)
        subprocess.run(['git', '-C', '/repo', 'worktree', 'add', '--detach', wt, 'HEAD'], capture_output=True)
        try:
            os.makedirs(wt + '/_build/include', exist_ok=True); subprocess.run(['cp', '/repo/_build/include/st_config.h', wt + '/_build/include/'])
            a = subprocess.run(['git', '-C', wt, 'apply', os.path.join(d, 'patch.diff')], capture_output=True, text=True)
            if a.returncode != 0: out[p] = 'patch does not apply'; continue
            r = subprocess.run([os.path.join(V, 'bin', 'check'), p, '--tier', 'quick', '--no-evidence'], capture_output=True, text=True, env=dict(os.environ, VERIF_REPO=wt))
            lines = [l for l in r.stdout.splitlines() if re.match(r'^(VIOLATION|UNDECIDED|OK|KNOWN)', l)]
            out[p] = {'exit': r.returncode, 'verdict': (lines[0][:300] if lines else r.stdout[-300:] + r.stderr[-300:])}
        finally:
            subprocess.run(['git', '-C', '/repo', 'worktree', 'remove', '--force', wt], capture_output=True)
    meta['checks_run'] = out
    meta['detected'] = any(isinstance(v, dict) and v['exit'] == 1 for v in out.values())
    json.dump(meta, open(os.path.join(d, 'meta.json'), 'w'), indent=1)
    return sid, out
ids = sorted(x for x in os.listdir(os.path.join(V, 'seeded')) if re.match(r'C\d\d-', x))
if args: ids = [i for i in ids if any(i == a or i.startswith(a + '-') for a in args)]
with concurrent.futures.ThreadPoolExecutor(max_workers=J) as pool:
    for sid, out in pool.map(run, ids):
        for p, v in out.items(): print(sid, p, v if isinstance(v, str) else '%s %s' % (v['exit'], v['verdict'][:200]), flush=True)
