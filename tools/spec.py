#!/usr/bin/env python3
"""spec.py: parser for /verif/contracts/*.spec and splicer of contracts into generated C.

Format (line based, '#' comments, indentation free):

  function <C name>
    requires <expr> | ensures <expr> | assigns <targets> | frees <targets>
    loop <ordinal> cut|dfcc
      invariant <expr>
      decreases <expr>
      assigns <targets>             (dfcc: CBMC loop assigns clause)
      havoc <lvalue>[; <lvalue>...] (cut: variables the loop may change; slice(p, nbytes) for memory)
      pin <lhs> = <rhs>             (cut: pointer variable pinned to base + offset; havoc by assignment)
      entry <name> = <expr>         (cut: snapshot usable as loop-entry value)
      before|body_start|body_end|after <ghost statement>

A line starting with '|' continues the previous clause.
"""
import re

class SpecError(Exception):
    pass

def parse(path):
    spec = {}
    cur = None; loop = None; last = None
    lines = []
    for raw in open(path):
        line = raw.rstrip('\n')
        if line.strip().startswith('#') or not line.strip(): continue
        if line.strip().startswith('|'):
            if not lines: raise SpecError('continuation without clause in ' + path)
            lines[-1] = lines[-1] + ' ' + line.strip()[1:].strip(); continue
        lines.append(line.strip())
    for line in lines:
        kw, _, rest = line.partition(' ')
        rest = rest.strip()
        if kw == 'function':
            cur = spec.setdefault(rest, {'contract': [], 'loops': {}}); loop = None
        elif kw == 'loop':
            m = re.match(r'^(\d+)\s+(cut|dfcc)$', rest)
            if not m or cur is None: raise SpecError('bad loop line: ' + line)
            loop = {'mode': m.group(2), 'invariants': [], 'havoc': [], 'pin': [], 'entry': [], 'assigns': [],
                    'before': [], 'body_start': [], 'body_end': [], 'after': [], 'decreases': None}
            cur['loops'][int(m.group(1))] = loop
        elif kw in ('requires', 'ensures', 'assigns', 'frees') and loop is None:
            if cur is None: raise SpecError('clause outside function: ' + line)
            cur['contract'].append('__CPROVER_%s(%s)' % (kw, rest))
        elif loop is not None:
            if kw == 'invariant': loop['invariants'].append(rest)
            elif kw == 'decreases': loop['decreases'] = rest
            elif kw == 'assigns': loop['assigns'].append(rest)
            elif kw == 'havoc': loop['havoc'] += [h.strip() for h in rest.split(';') if h.strip()]
            elif kw == 'pin':
                lhs, _, rhs = rest.partition('='); loop['pin'].append((lhs.strip(), rhs.strip()))
            elif kw == 'entry':
                lhs, _, rhs = rest.partition('='); loop['entry'].append((lhs.strip(), rhs.strip()))
            elif kw in ('before', 'body_start', 'body_end', 'after'): loop[kw].append(rest)
            else: raise SpecError('unknown loop clause: ' + line)
        else:
            raise SpecError('unknown clause: ' + line)
    return spec

def splice(text, spec, present):
    """fill /*@CONTRACT name@*/ and /*@LOOP q n@*/ markers.  `present` = C names with a definition or prototype in text."""
    used = set()
    def contract(m):
        name = m.group(1)
        s = spec.get(name)
        if not s or not s['contract']: return ''
        used.add(name)
        return '\n'.join(s['contract'])
    text = re.sub(r'/\*@CONTRACT (\w+)@\*/', contract, text)
    def loopc(m):
        name, no = m.group(1), int(m.group(2))
        s = spec.get(name)
        if not s: return ''
        l = s['loops'].get(no)
        if not l or l['mode'] != 'dfcc': return ''
        out = []
        if l['assigns']: out.append('__CPROVER_assigns(%s)' % ', '.join(l['assigns']))
        for inv in l['invariants']: out.append('__CPROVER_loop_invariant(%s)' % inv)
        if l['decreases']: out.append('__CPROVER_decreases(%s)' % l['decreases'])
        return '\n'.join(out)
    text = re.sub(r'/\*@LOOP (\w+) (\d+)@\*/', loopc, text)
    return text, used
