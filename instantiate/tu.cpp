// Translation unit dumped by clang on every run; forces the template
// instantiations that are put under contract (DESIGN.md 2.2).
#include <string_theory/string>
#include <string_theory/format>
#include <string_theory/codecs>
#include <string_theory/string_stream>
#include <string_theory/stdio>
#include <string_theory/iostream>
template class ST::buffer<char>;
template class ST::buffer<wchar_t>;
template class ST::buffer<char16_t>;
template class ST::buffer<char32_t>;
template class _ST_PRIVATE::ostream_format_writer<char, std::char_traits<char>>;
template class _ST_PRIVATE::ostream_format_writer<wchar_t, std::char_traits<wchar_t>>;
