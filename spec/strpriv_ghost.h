/* CBMC-only ghosts for contracts/strpriv.spec */
size_t CI_D;          /* compare_ci: index examined by the step in progress */
const char *CI_PROBE; int CI_HIT; size_t CI_WIT;   /* compare_ci contract stub: witness recorded for the candidate at CI_PROBE */

/* record of the last leaf search call and first-occurrence witness (used by harness/leaf_stubs.h and by loop contracts of callers) */
struct leaf_call { unsigned calls; int kind; const char *h; size_t n; const char *nd; size_t k; char ch; const char *ret; } LF;
const char *FS_PROBE; int FS_HIT; size_t FS_WIT;     /* first-occurrence witness for the candidate at FS_PROBE */
enum { LF_find_cs_needle = 1, LF_find_ci_needle, LF_find_ci_char };
#define LEAF_EQ(ci, a, b) ((ci) ? FOLD(a) == FOLD(b) : (a) == (b))
