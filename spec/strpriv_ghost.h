/* CBMC-only ghosts for contracts/strpriv.spec */
size_t CI_D;          /* compare_ci: index examined by the step in progress */
const char *CI_PROBE; int CI_HIT; size_t CI_WIT;   /* compare_ci contract stub: witness recorded for the candidate at CI_PROBE */
