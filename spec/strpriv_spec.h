/* strpriv_spec.h — oracle for C06/C07 leaf functions: ASCII case folding and first-difference order.
 * FOLD/UNFOLD are functions (not macros) so that their argument — usually an array read at a symbolic index — is
 * evaluated once (as macros they blew CBMC's memory up: 12 GB vs 190 MB). */
#ifndef STRPRIV_SPEC_H
#define STRPRIV_SPEC_H
/* fold ASCII A-Z to a-z, nothing else */
static inline char FOLD(char c)   { return (char)((c >= 'A' && c <= 'Z') ? c + 32 : c); }
static inline char UNFOLD(char c) { return (char)((c >= 'a' && c <= 'z') ? c - 32 : c); }
#define SIGN(x)   ((x) < 0 ? -1 : (x) > 0 ? 1 : 0)
#endif
