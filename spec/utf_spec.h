/* utf_spec.h — independent oracle for C01/C02/C03 (DESIGN.md Appendix A).
 * Written from the Unicode Standard's encoding-form definitions (Table 3-6; D91, D92) and from the
 * property text's list of tolerated forms — NOT from the code.  Plain C macros, shared by the CBMC
 * contracts and the native replay oracle.
 *
 * Readers: for a source s of n units and an offset i < n
 *   X_ADV(s,i,n)  how far one step advances        X_OK(s,i,n)  the unit at i can stand where it is
 *   X_VAL(s,i,n)  the scalar value it denotes (meaningful when OK)
 * Writers: for (ok, val)
 *   W?_UNITS(ok,val)  number of units emitted in the non-throwing modes      W?_OUT(ok,val,j)  the j-th of them
 */
#ifndef UTF_SPEC_H
#define UTF_SPEC_H

/* ---------- UTF-8 encoder (Unicode Table 3-6) ---------- */
#define LEN8(c) ((c) < 0x80 ? 1 : (c) < 0x800 ? 2 : (c) < 0x10000 ? 3 : 4)
#define ENC8(c, j) ((unsigned char)( \
    (c) < 0x80    ? (c) : \
    (c) < 0x800   ? ((j) == 0 ? (0xC0 | ((c) >> 6)) : (0x80 | ((c) & 0x3F))) : \
    (c) < 0x10000 ? ((j) == 0 ? (0xE0 | ((c) >> 12)) : (j) == 1 ? (0x80 | (((c) >> 6) & 0x3F)) : (0x80 | ((c) & 0x3F))) : \
                    ((j) == 0 ? (0xF0 | ((c) >> 18)) : (j) == 1 ? (0x80 | (((c) >> 12) & 0x3F)) : (j) == 2 ? (0x80 | (((c) >> 6) & 0x3F)) : (0x80 | ((c) & 0x3F))) ))
/* ---------- UTF-16 encoder (D91) ---------- */
#define LEN16(c) ((c) < 0x10000 ? 1 : 2)
#define ENC16(c, j) ((unsigned short)( (c) < 0x10000 ? (c) : ((j) == 0 ? (0xD800 + (((c) - 0x10000) >> 10)) : (0xDC00 + (((c) - 0x10000) & 0x3FF))) ))
#define FFFD8(j) ((unsigned char)((j) == 0 ? 0xEF : (j) == 1 ? 0xBF : 0xBD))

/* ---------- UTF-8 reader: structural well-formedness as the property defines it ---------- */
#define U8_CONT(b) (((b) & 0xC0) == 0x80)
#define U8_NEED(b) ((b) < 0x80 ? 1 : ((b) & 0xE0) == 0xC0 ? 2 : ((b) & 0xF0) == 0xE0 ? 3 : ((b) & 0xF8) == 0xF0 ? 4 : 0)
#define U8_COMPLETE(s, i, n) ( \
      U8_NEED((s)[i]) == 1 ? 1 \
    : U8_NEED((s)[i]) == 2 ? ((n) - (i) >= 2 && U8_CONT((s)[(i) + 1])) \
    : U8_NEED((s)[i]) == 3 ? ((n) - (i) >= 3 && U8_CONT((s)[(i) + 1]) && U8_CONT((s)[(i) + 2])) \
    : U8_NEED((s)[i]) == 4 ? ((n) - (i) >= 4 && U8_CONT((s)[(i) + 1]) && U8_CONT((s)[(i) + 2]) && U8_CONT((s)[(i) + 3])) \
    : 0 )
#define U8_OK(s, i, n)  (U8_COMPLETE(s, i, n) ? 1 : 0)
#define U8_ADV(s, i, n) ((size_t)(U8_COMPLETE(s, i, n) ? U8_NEED((s)[i]) : 1))
#define U8_VAL(s, i, n) ((unsigned)( \
      U8_NEED((s)[i]) == 1 ? (s)[i] \
    : U8_NEED((s)[i]) == 2 ? ((((s)[i] & 0x1Fu) << 6) | ((s)[(i) + 1] & 0x3Fu)) \
    : U8_NEED((s)[i]) == 3 ? ((((s)[i] & 0x0Fu) << 12) | (((s)[(i) + 1] & 0x3Fu) << 6) | ((s)[(i) + 2] & 0x3Fu)) \
    :                        ((((s)[i] & 0x07u) << 18) | (((s)[(i) + 1] & 0x3Fu) << 12) | (((s)[(i) + 2] & 0x3Fu) << 6) | ((s)[(i) + 3] & 0x3Fu)) ))

/* ---------- UTF-16 reader: a pair in either order is tolerated ---------- */
#define U16_SURR(u) ((u) >= 0xD800 && (u) <= 0xDFFF)
#define U16_HI(u)   ((u) >= 0xD800 && (u) <= 0xDBFF)
#define U16_LO(u)   ((u) >= 0xDC00 && (u) <= 0xDFFF)
#define U16_PAIR(s, i, n) ((n) - (i) >= 2 && ((U16_HI((s)[i]) && U16_LO((s)[(i) + 1])) || (U16_LO((s)[i]) && U16_HI((s)[(i) + 1]))))
#define U16_OK(s, i, n)  ((!U16_SURR((s)[i]) || U16_PAIR(s, i, n)) ? 1 : 0)
#define U16_ADV(s, i, n) ((size_t)((U16_SURR((s)[i]) && U16_PAIR(s, i, n)) ? 2 : 1))
#define U16_VAL(s, i, n) ((unsigned)( !U16_SURR((s)[i]) ? (s)[i] \
    : U16_HI((s)[i]) ? (0x10000u + (((s)[i] & 0x3FFu) << 10) + ((s)[(i) + 1] & 0x3FFu)) \
    :                  (0x10000u + (((s)[(i) + 1] & 0x3FFu) << 10) + ((s)[i] & 0x3FFu)) ))

/* ---------- UTF-32 / wchar_t reader ---------- */
#define U32_OK(s, i, n)  (((unsigned)(s)[i] <= 0x10FFFFu) ? 1 : 0)
#define U32_ADV(s, i, n) ((size_t)1)
#define U32_VAL(s, i, n) ((unsigned)(s)[i])
/* ---------- Latin-1 reader ---------- */
#define L1_OK(s, i, n)  1
#define L1_ADV(s, i, n) ((size_t)1)
#define L1_VAL(s, i, n) ((unsigned)(unsigned char)(s)[i])

/* ---------- writers (non-throwing modes) ---------- */
#define W8_REPR(ok, v)    ((ok) && (v) <= 0x10FFFFu)
#define W8_UNITS(ok, v)   ((size_t)(W8_REPR(ok, v) ? LEN8(v) : 3))
#define W8_OUT(ok, v, j)  (W8_REPR(ok, v) ? ENC8(v, j) : FFFD8(j))
#define W16_REPR(ok, v)   ((ok) && (v) <= 0x10FFFFu)
#define W16_UNITS(ok, v)  ((size_t)((W16_REPR(ok, v) && (v) >= 0x10000u) ? 2 : 1))
#define W16_OUT(ok, v, j) ((unsigned short)(W16_REPR(ok, v) ? ENC16(v, j) : 0xFFFD))
#define W32_REPR(ok, v)   (ok)
#define W32_UNITS(ok, v)  ((size_t)1)
#define W32_OUT(ok, v, j) ((unsigned)((ok) ? (v) : 0xFFFDu))
/* Latin-1: '?' for a unit that cannot stand; a well-formed character above U+00FF is '?' when substitution
 * was requested, otherwise the call fails with latin1_out_of_range (not a validation failure) */
#define WL1_REPR(ok, v)   ((ok) && (v) < 0x100u)
#define WL1_UNITS(ok, v)  ((size_t)1)
#define WL1_OUT(ok, v, j) ((unsigned char)(WL1_REPR(ok, v) ? (v) : '?'))

#endif
