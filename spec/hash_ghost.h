/* hash_ghost.h — FNV-1a (64 bit) as a recurrence over the byte sequence: HS(0) = offset basis, HS(k+1) = (HS(k) ^ byte_k) * prime, the byte
 * sign-extended as the library does ((size_t)(char)); constants from the FNV reference (Fowler / Noll / Vo), written here independently.
 * A value defined by this recurrence depends on the bytes only: equal byte sequences (resp. fold-equal ones, for hash_i) give equal values. */
size_t __CPROVER_uninterpreted_hs(size_t k);
#define HS(k) __CPROVER_uninterpreted_hs(k)
#define FNV64_BASIS 14695981039346656037ul
#define FNV64_PRIME 1099511628211ul
#define HS_DEF(k, byte) __CPROVER_assume(HS((k) + 1) == (HS(k) ^ (size_t)(char)(byte)) * FNV64_PRIME)
