/* sinks_ghost.h — ghost records named by contracts/sinks.spec (definitions: harness/sinks.c) */
extern struct { size_t calls; int ch; FILE *stream; _Bool all_same; } FPC;
extern size_t SINK_COUNT0;
extern struct { size_t calls; const void *stream; long ch; _Bool all_same; } OSP;
