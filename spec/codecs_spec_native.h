/* generated from codecs_spec.h by dropping the CBMC ghost section; DO NOT EDIT: regenerate with tools/mk_native_spec.py */
/* codecs_spec.h — independent oracle for C14/C15, written from RFC 4648 section 4
 * (base64 standard alphabet, '=' padding) and from the property text; NOT from the code.
 * The same macros are the CBMC postconditions and the native replay oracle.          */
#ifndef CODECS_SPEC_H
#define CODECS_SPEC_H

/* value of a base64 alphabet character, -1 for anything else (RFC 4648 table 1) */
#define B64VAL(c) ( ((c) >= 'A' && (c) <= 'Z') ? (int)(c) - 'A' \
                  : ((c) >= 'a' && (c) <= 'z') ? (int)(c) - 'a' + 26 \
                  : ((c) >= '0' && (c) <= '9') ? (int)(c) - '0' + 52 \
                  : ((c) == '+') ? 62 : ((c) == '/') ? 63 : -1 )
/* character for a 6-bit value */
#define B64CHAR(v) ( (v) < 26 ? (char)('A' + (v)) : (v) < 52 ? (char)('a' + ((v) - 26)) \
                   : (v) < 62 ? (char)('0' + ((v) - 52)) : (v) == 62 ? '+' : '/' )
/* length implied by size and padding (size a multiple of four) */
#define B64_DECLEN(n, d) ( ((n) >> 2) * 3 - (((n) > 0 && (d)[(n) - 1] == '=') ? 1 : 0) - (((n) > 1 && (d)[(n) - 2] == '=') ? 1 : 0) )
/* position i of an n-character input is acceptable: alphabet character, or '=' in the last place,
 * or '=' in the last-but-one place provided the last is '=' too */
#define B64_VALID_AT(d, n, i) ( B64VAL((d)[i]) >= 0 \
        || ((i) == (n) - 1 && (d)[i] == '=') \
        || ((i) + 2 == (n) && (d)[i] == '=' && (d)[(n) - 1] == '=') )
/* the three bytes a quad q[0..3] of alphabet characters decodes to */
#define B64V6(c) (B64VAL(c) & 63)
#define B64_DEC0(q) ((unsigned char)((B64V6((q)[0]) << 2) | (B64V6((q)[1]) >> 4)))
#define B64_DEC1(q) ((unsigned char)(((B64V6((q)[1]) & 15) << 4) | (B64V6((q)[2]) >> 2)))
#define B64_DEC2(q) ((unsigned char)(((B64V6((q)[2]) & 3) << 6) | B64V6((q)[3])))
#define B64_ALPHA(c) (B64VAL(c) >= 0)
/* the four characters a group of r (1..3) remaining bytes p[0..] encodes to */
#define B64_ENC0(p, r) B64CHAR((p)[0] >> 2)
#define B64_ENC1(p, r) B64CHAR((((p)[0] & 3) << 4) | ((r) > 1 ? ((p)[1] >> 4) : 0))
#define B64_ENC2(p, r) ((r) > 1 ? B64CHAR((((p)[1] & 15) << 2) | ((r) > 2 ? ((p)[2] >> 6) : 0)) : '=')
#define B64_ENC3(p, r) ((r) > 2 ? B64CHAR((p)[2] & 63) : '=')
#define B64_ENCLEN(n) ((((n) + 2) / 3) * 4)

/* hex */
#define HEXVAL(c) ( ((c) >= '0' && (c) <= '9') ? (int)(c) - '0' : ((c) >= 'a' && (c) <= 'f') ? (int)(c) - 'a' + 10 \
                  : ((c) >= 'A' && (c) <= 'F') ? (int)(c) - 'A' + 10 : -1 )
#define HEXCHAR(v) ((char)((v) < 10 ? '0' + (v) : 'a' + ((v) - 10)))

#endif
