/* utf_ghost.h — CBMC-only ghost state and step macros for the conversion-loop contracts (contracts/utf.spec). */
#ifndef UTF_GHOST_H
#define UTF_GHOST_H
#define UTF_MAXN ((size_t)1 << 28)          /* library precondition: fewer than 256 Mi code units */
/* PHI(off): number of target units the source suffix starting at offset off produces.  Uninterpreted: CBMC assumes
 * functional consistency only; the defining recurrence is assumed at the offset the current step visits. */
size_t __CPROVER_uninterpreted_phi(size_t off);
#define PHI(off) __CPROVER_uninterpreted_phi(off)
_Bool G_BAD, G_L1OOR;    /* set by the step in progress: its unit cannot stand / is a well-formed character above U+00FF */
#define STEP_BEGIN(OKX, ADVX, VALX, W, C) \
    _Bool s_ok = (OKX) != 0; size_t s_adv = (ADVX); unsigned s_val = s_ok ? (unsigned)(VALX) : 0u; \
    size_t s_units = W##_UNITS(s_ok, s_val); \
    __CPROVER_assert(s_adv >= 1 && s_adv <= size - OFF, "step.def.1: 1 <= ADV <= remaining input (PHI is well defined)"); \
    __CPROVER_assert(s_units <= (size_t)(C) * s_adv, "step.def.2: UNITS <= c*ADV (bound of PHI)"); \
    __CPROVER_assume(PHI(OFF) == s_units + PHI(OFF + s_adv) && PHI(OFF + s_adv) <= (size_t)(C) * (size - OFF - s_adv))
#endif
