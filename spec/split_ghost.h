/* split_ghost.h — CBMC-only ghost state for contracts/string_split.spec and harness/string_split.c (C09) */
struct { size_t last_n; char last_at; const char *last_chars; size_t probe; size_t probe_n; char probe_at; unsigned pushes; } VEC;
size_t __CPROVER_uninterpreted_nxt(size_t off);
#define NXT(off) __CPROVER_uninterpreted_nxt(off)
size_t __CPROVER_uninterpreted_rem(size_t off);
#define REM(off) __CPROVER_uninterpreted_rem(off)
struct { const char *base; size_t n; const char *nd; size_t k; int ci; size_t calls; size_t last_off, last_q; } SR;
long SPLIT_LIVE0; size_t SPLIT_OFF, SPLIT_CUTS, SPLIT_M0, SPLIT_SEPLEN; char SPLIT_CH; _Bool RP_OK;
size_t RP_TN, RP_GO; const char *RP_TO;        /* replace: |to|, the ghost segment start, to's bytes */
struct { unsigned calls; int v; } SC;
size_t TK_TOKENS;
/* ---- replace(): ghost functions and step macros.  N = SR.n, K = |from| = SR.k, TN = |to|.
 * BND(off): off is a resume point of the left-to-right scan (0, then NXT(off) + K); REM(off): result bytes contributed by the text from off;
 * POSX(off): output position of the segment that starts at off; RP_P (= GI2): an arbitrary output position; RP_GO: an arbitrary resume point. */
_Bool __CPROVER_uninterpreted_bnd(size_t off);
#define BND(off) __CPROVER_uninterpreted_bnd(off)
size_t RP_TOTAL, RP_TAIL_OFF, RP_TAIL_W; const char *RP_OUT0;
#define RP_N (SR.n)
#define RP_K (SR.k)
#define RP_P GI2
#define POSX(off) (RP_TN == RP_K ? (size_t)(off) : REM(0) - REM(off))
#define RP_DEF(off) __CPROVER_assume( \
    (NXT(off) == RP_N ? REM(off) == RP_N - (off) \
                      : (RP_K <= RP_N && (off) <= NXT(off) && NXT(off) <= RP_N - RP_K && REM(off) == (NXT(off) - (off)) + RP_TN + REM(NXT(off) + RP_K) && REM(NXT(off) + RP_K) <= REM(off))) \
    && (NXT(off) == RP_N || BND(NXT(off) + RP_K)) \
    && (!(RP_GO > (off) && (NXT(off) == RP_N || RP_GO < NXT(off) + RP_K)) || !BND(RP_GO)))
#define IN_LIT(go)  (RP_P < RP_TOTAL && RP_P >= POSX(go) && RP_P - POSX(go) < NXT(go) - (go))
#define IN_TO(go)   (RP_P < RP_TOTAL && RP_P >= POSX(go) + (NXT(go) - (go)) && RP_P - POSX(go) - (NXT(go) - (go)) < RP_TN)
#define EXP_LIT(go) (SR.base[(go) + (RP_P - POSX(go))])
#define EXP_TO(go)  (RP_TO[RP_P - POSX(go) - (NXT(go) - (go))])
/* the segment that starts at the resume point go has been written (go lies before the current resume point off) and is intact */
#define SEG_OK(go, off, buf) (!(BND(go) && (go) < (off)) || ( \
    NXT(go) < RP_N && (go) <= NXT(go) && RP_K <= (off) && NXT(go) <= (off) - RP_K \
    && (RP_TN == RP_K || (REM(go) <= REM(0) && REM(go) >= (NXT(go) - (go)) + RP_TN + REM(off))) \
    && (!IN_LIT(go) || (buf)[RP_P] == EXP_LIT(go)) && (!IN_TO(go) || (buf)[RP_P] == EXP_TO(go))))
#ifndef RP_NO_CONTENT
#define RP_NO_CONTENT 0
#endif
