/* split_ghost.h — CBMC-only ghost state for contracts/string_split.spec and harness/string_split.c (C09) */
struct { size_t last_n; char last_at; const char *last_chars; size_t probe; size_t probe_n; char probe_at; unsigned pushes; } VEC;
size_t __CPROVER_uninterpreted_nxt(size_t off);
#define NXT(off) __CPROVER_uninterpreted_nxt(off)
size_t __CPROVER_uninterpreted_rem(size_t off);
#define REM(off) __CPROVER_uninterpreted_rem(off)
struct { const char *base; size_t n; const char *nd; size_t k; int ci; size_t calls; size_t last_off, last_q; } SR;
long SPLIT_LIVE0; size_t SPLIT_OFF, SPLIT_CUTS, SPLIT_M0, SPLIT_SEPLEN; char SPLIT_CH; _Bool RP_OK;
size_t RP_TN, RP_GO; const char *RP_TO;        /* replace: |to|, the ghost segment start, to's bytes */
struct { unsigned calls; int v; } SC;
size_t TK_TOKENS;
