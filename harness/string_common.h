/* string_common.h — helpers shared by the ST::string harnesses: ghost reset, arbitrary well-formed strings, snapshots */
#include "/verif/harness/leaf_stubs.h"

#define SL (sizeof(((struct ST_buffer_char *)0)->m_data) / sizeof(char))   /* in-object capacity, from the real struct layout */
static void str_ghosts(void)
{
    GI0 = nondet_size_t(); GI1 = nondet_size_t(); GI2 = nondet_size_t(); ST_EXC = 0; ST_LIVE = 0; ST_FAULT = 0;
    LF.calls = 0; LF.ret = NULL; TRF_CALLS = 0; TRF_RET = NULL; TRL_CALLS = 0; TRL_S = NULL; TRL_RET = 0; TRC_N = 0; TRC_A = NULL; TRC_B = NULL; TRC_R = 0; TRC_CI = 0; TRC_CALLS = 0;
    FS_PROBE = NULL; FS_HIT = 0; TRF_PROBE = NULL; TRC_PROBE = NULL; CI_PROBE = NULL;
}
/* an arbitrary well-formed ST::string: symbolic size, symbolic bytes, short or heap storage */
static void mk_str(struct ST_string *s)
{
    size_t n = nondet_size_t(); __CPROVER_assume(n < ST_MAXN);
#ifdef MK_STR_HEAP_ONLY
    __CPROVER_assume(n >= SL);
#endif
    s->m_buffer.m_size = n;
    if (n < SL) s->m_buffer.m_chars = s->m_buffer.m_data;
    else { s->m_buffer.m_chars = malloc(n + 1); __CPROVER_assume(s->m_buffer.m_chars != NULL); ST_LIVE++; }
    __CPROVER_assume(s->m_buffer.m_chars[n] == 0);
}
/* a NUL-terminated C string of symbolic length (its length is what tr_length will report: index of the first 0) */
static char *mk_cstr(size_t *len)
{
    size_t n = nondet_size_t(); __CPROVER_assume(n < ST_MAXN);
    char *p = malloc(n + 1); __CPROVER_assume(p != NULL); p[n] = 0;
    *len = n; return p;
}
#define STR_WF(s) ((s)->m_buffer.m_size < ST_MAXN && ((s)->m_buffer.m_size < SL ? (s)->m_buffer.m_chars == (s)->m_buffer.m_data : (__CPROVER_DYNAMIC_OBJECT((s)->m_buffer.m_chars) && __CPROVER_OBJECT_SIZE((s)->m_buffer.m_chars) == (s)->m_buffer.m_size + 1 && __CPROVER_POINTER_OFFSET((s)->m_buffer.m_chars) == 0)) && (s)->m_buffer.m_chars[(s)->m_buffer.m_size] == 0)
#define SNAP_STR(s, p) size_t p##_n = (s)->m_buffer.m_size; const char *p##_c = (s)->m_buffer.m_chars; char p##_at = GI0 < p##_n ? p##_c[GI0] : 0
#define STR_UNCHANGED(s, p) ((s)->m_buffer.m_size == p##_n && (s)->m_buffer.m_chars == p##_c && (GI0 >= p##_n || p##_c[GI0] == p##_at))

