/* harness/buffer_ops.c — C06: the comparison members and operators of ST::buffer<char> are single forwards to the static
 * compare(left, lsize, right, rsize[, maxlen]) whose contract (first difference under unsigned order, then length) is proved in the
 * strpriv unit.  Each forward is the real extracted code, the static compare is replaced by a stub that records what was compared and
 * returns an arbitrary int: ==, !=, < and compare(buffer) must ask about exactly (data, size) of both operands and map the sign.        */
#define SL (sizeof(((struct ST_buffer_char *)0)->m_data) / sizeof(char))
static void str_ghosts(void) { GI0 = nondet_size_t(); GI1 = nondet_size_t(); GI2 = nondet_size_t(); ST_EXC = 0; ST_LIVE = 0; ST_FAULT = 0; TRL_CALLS = 0; TRL_S = NULL; TRL_RET = 0; }
static char *mk_cstr(size_t *len) { size_t n = nondet_size_t(); __CPROVER_assume(n < ST_MAXN); char *p = malloc(n + 1); __CPROVER_assume(p != NULL); p[n] = 0; *len = n; return p; }
struct { unsigned calls; const char *l, *r; size_t ls, rs, maxlen; _Bool has_max; int ret; } BC;
#ifdef STUB_ST_buffer_char_compare__pc_sz_pc_sz
int ST_buffer_char_compare__pc_sz_pc_sz(const char *left, unsigned long lsize, const char *right, unsigned long rsize)
{ BC.calls++; BC.l = left; BC.ls = lsize; BC.r = right; BC.rs = rsize; BC.has_max = 0; BC.ret = nondet_int(); return BC.ret; }
#endif
#ifdef STUB_ST_buffer_char_compare__pc_sz_pc_sz_sz
int ST_buffer_char_compare__pc_sz_pc_sz_sz(const char *left, unsigned long lsize, const char *right, unsigned long rsize, unsigned long maxlen)
{ BC.calls++; BC.l = left; BC.ls = lsize; BC.r = right; BC.rs = rsize; BC.maxlen = maxlen; BC.has_max = 1; BC.ret = nondet_int(); return BC.ret; }
#endif
static void mk_buf2(struct ST_buffer_char *b)
{
    size_t n = nondet_size_t(); __CPROVER_assume(n < ST_MAXN);
    b->m_size = n;
    if (n < SL) b->m_chars = b->m_data; else { b->m_chars = malloc(n + 1); __CPROVER_assume(b->m_chars != NULL); }
    __CPROVER_assume(b->m_chars[n] == 0);
}
void h_buffer_ops(void)
{
    str_ghosts(); struct ST_buffer_char a, b; mk_buf2(&a); mk_buf2(&b); BC.calls = 0;
    const char *a_c = a.m_chars, *b_c = b.m_chars; size_t a_n = a.m_size, b_n = b.m_size; char a_at = GI0 < a_n ? a_c[GI0] : 0, b_at = GI0 < b_n ? b_c[GI0] : 0;
    int which = nondet_int(); __CPROVER_assume(which >= 0 && which <= 4); size_t count = nondet_size_t();
    int r = 0; _Bool q = 0;
    if (which == 0) r = ST_buffer_char_compare__rbufferc_k(&a, &b);
    else if (which == 1) q = ST_buffer_char_op_eq__rbufferc_k(&a, &b);
    else if (which == 2) q = ST_buffer_char_op_ne__rbufferc_k(&a, &b);
    else if (which == 3) q = ST_buffer_char_op_lt(&a, &b);
    else r = ST_buffer_char_compare_n__rbufferc_sz_k(&a, &b, count);
    __CPROVER_assert(BC.calls == 1 && BC.l == a_c && BC.ls == a_n && BC.r == b_c && BC.rs == b_n, "ST_buffer_char_ops.postcondition.1: exactly the size() units at data() of both operands are compared, once (no other bytes of the objects take part)");
    __CPROVER_assert(BC.has_max == (which == 4) && (which != 4 || BC.maxlen == count), "ST_buffer_char_ops.postcondition.2: compare_n limits the comparison to the given count, the others compare everything");
    __CPROVER_assert(which == 0 || which == 4 ? r == BC.ret : which == 1 ? q == (BC.ret == 0) : which == 2 ? q == (BC.ret != 0) : q == (BC.ret < 0), "ST_buffer_char_ops.postcondition.3: ==, !=, < and compare agree with the sign of compare()");
    __CPROVER_assert(a.m_chars == a_c && a.m_size == a_n && b.m_chars == b_c && b.m_size == b_n && (GI0 >= a_n || a_c[GI0] == a_at) && (GI0 >= b_n || b_c[GI0] == b_at), "ST_buffer_char_ops.postcondition.4: comparing modifies neither operand");
}
void h_buffer_ops_cstr(void)
{
    str_ghosts(); struct ST_buffer_char a; mk_buf2(&a); BC.calls = 0; size_t cl; char *s = mk_cstr(&cl); if (nondet_bool()) s = NULL;
    const char *a_c = a.m_chars; size_t a_n = a.m_size;
    int r = ST_buffer_char_compare__pc_k(&a, s);
    __CPROVER_assert(BC.calls == 1 && BC.l == a_c && BC.ls == a_n && r == BC.ret, "ST_buffer_char_ops_cstr.postcondition.1: the buffer's size() units at data() are the left operand; the result is compare()'s");
    __CPROVER_assert(s == NULL ? BC.rs == 0 : (BC.r == s && TRL_CALLS >= 1 && TRL_S == s && BC.rs == TRL_RET), "ST_buffer_char_ops_cstr.postcondition.2: the right operand is the C string up to its terminator; a null pointer compares as the empty string");
}
