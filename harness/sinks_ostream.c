/* harness/sinks_ostream.c — C17: the std::basic_ostream sinks (ostream_format_writer<char> and <wchar_t>) refine the abstract sink contract.
 * std::basic_ostream<T>::write / put are external (stubs os_write_<T> / os_put_<T>: the units given are appended to the stream; recorded).
 * For the wchar_t stream append() must write exactly the transcoding ST::utf8_to_wchar(data, size) returns (contract stub: a fresh
 * well-formed buffer, or unicode_error): all of its units, nothing else.                                                              */
struct { size_t calls; const void *stream; const void *ptr; long n; } OSW;
struct { size_t calls; const void *stream; long ch; _Bool all_same; } OSP;
static void osp_rec(const void *stream, long ch) { if (OSP.calls == 0) { OSP.stream = stream; OSP.ch = ch; OSP.all_same = 1; } else if (OSP.stream != stream || OSP.ch != ch) OSP.all_same = 0; OSP.calls++; }
void os_write_char(void *stream, const char *p, long n) { __CPROVER_assert(n >= 0 && (n == 0 || __CPROVER_r_ok(p, (size_t)n)), "ostream.write.precondition: n units readable"); OSW.calls++; OSW.stream = stream; OSW.ptr = p; OSW.n = n; }
void os_write_wchar_t(void *stream, const int32_t *p, long n) { __CPROVER_assert(n >= 0 && (n == 0 || __CPROVER_r_ok(p, (size_t)n * sizeof(int32_t))), "ostream.write.precondition: n units readable"); OSW.calls++; OSW.stream = stream; OSW.ptr = p; OSW.n = n; }
void os_put_char(void *stream, char c) { osp_rec(stream, (long)c); }
void os_put_wchar_t(void *stream, int32_t c) { osp_rec(stream, (long)c); }
struct { size_t calls; const char *data; size_t size; int validation; int32_t *chars; size_t n; } U8W;
#ifdef STUB_ST_utf8_to_wchar__pc_sz_utf_validation_t
void ST_utf8_to_wchar__pc_sz_utf_validation_t(struct ST_buffer_wchar_t *__ret, const char *utf8, unsigned long size, ST_utf_validation_t validation)
{
    U8W.calls++; U8W.data = utf8; U8W.size = size; U8W.validation = (int)validation;
    if (nondet_bool()) { ST_EXC = EXC_ST_unicode_error; return; }
    size_t n = nondet_size_t(); __CPROVER_assume(n <= size);
    __ret->m_size = n;
    if (n < sizeof(__ret->m_data) / sizeof(int32_t)) __ret->m_chars = __ret->m_data; else { __ret->m_chars = malloc((n + 1) * sizeof(int32_t)); __CPROVER_assume(__ret->m_chars != NULL); ST_LIVE++; }
    __ret->m_chars[n] = 0;
    U8W.chars = __ret->m_chars; U8W.n = n;
}
#endif
#define WC stp_ostream_format_writer_char_std_char_traits_char
#define WW stp_ostream_format_writer_wchar_t_std_char_traits_wchar_t
#define CAT(a, b) a##b
#define FN(c, f) CAT(c, f)
size_t SINK_COUNT0;
void h_sink_ostream_char(void)
{
    ST_EXC = 0; ST_LIVE = 0; OSW.calls = 0; OSP.calls = 0; OSP.all_same = 1;
    struct WC w; size_t n = nondet_size_t(); __CPROVER_assume(n < ST_MAXN); char *data = malloc(n); __CPROVER_assume(data != NULL);
    if (nondet_bool()) {
        struct WC *r = FN(WC, _append)(&w, data, n);
        __CPROVER_assert(OSW.calls == 1 && OSW.stream == (const void *)&w.m_stream && OSW.ptr == data && OSW.n == (long)n && OSP.calls == 0, "ostream_format_writer_char_append.postcondition.1: exactly the given bytes, all of them, are written to the writer's stream in one write");
        __CPROVER_assert(r == &w && ST_EXC == 0, "ostream_format_writer_char_append.postcondition.2: returns the writer itself");
    } else {
        char ch = (char)nondet_uchar(); size_t count = nondet_size_t(); SINK_COUNT0 = count;
        struct WC *r = FN(WC, _append_char)(&w, ch, count);
        __CPROVER_assert(OSP.calls == count && OSW.calls == 0 && (count == 0 || (OSP.all_same && OSP.ch == (long)ch && OSP.stream == (const void *)&w.m_stream)), "ostream_format_writer_char_append_char.postcondition.1: exactly count copies of the character are put to the writer's stream");
        __CPROVER_assert(r == &w && ST_EXC == 0, "ostream_format_writer_char_append_char.postcondition.2: returns the writer itself");
    }
}
void h_sink_ostream_wchar(void)
{
    ST_EXC = 0; ST_LIVE = 0; OSW.calls = 0; OSP.calls = 0; OSP.all_same = 1; U8W.calls = 0;
    struct WW w; size_t n = nondet_size_t(); __CPROVER_assume(n < ((size_t)1 << 28)); char *data = malloc(n); __CPROVER_assume(data != NULL);
    if (nondet_bool()) {
        struct WW *r = FN(WW, _append)(&w, data, n);
        __CPROVER_assert(U8W.calls == 1 && U8W.data == data && U8W.size == n, "ostream_format_writer_wchar_append.postcondition.1: exactly the given bytes, all of them, are transcoded");
        if (ST_EXC == 0) {
            __CPROVER_assert(OSW.calls == 1 && OSW.stream == (const void *)&w.m_stream && OSW.ptr == U8W.chars && OSW.n == (long)U8W.n && OSP.calls == 0, "ostream_format_writer_wchar_append.postcondition.2: exactly the units of the transcoding, all of them, are written to the writer's stream");
            __CPROVER_assert(r == &w, "ostream_format_writer_wchar_append.postcondition.3: returns the writer itself");
        } else __CPROVER_assert(ST_EXC == EXC_ST_unicode_error && OSW.calls == 0, "ostream_format_writer_wchar_append.postcondition.4: a chunk that is not valid UTF-8 raises unicode_error before anything is written");
        __CPROVER_assert(ST_LIVE == 0, "ostream_format_writer_wchar_append.postcondition.5: the temporary transcoding buffer is released");
    } else {
        char ch = (char)nondet_uchar(); size_t count = nondet_size_t(); SINK_COUNT0 = count;
        struct WW *r = FN(WW, _append_char)(&w, ch, count);
        __CPROVER_assert(OSP.calls == count && OSW.calls == 0 && (count == 0 || (OSP.all_same && OSP.ch == (long)(int32_t)ch && OSP.stream == (const void *)&w.m_stream)), "ostream_format_writer_wchar_append_char.postcondition.1: exactly count copies of the (widened) character are put to the writer's stream");
        __CPROVER_assert(r == &w && ST_EXC == 0, "ostream_format_writer_wchar_append_char.postcondition.2: returns the writer itself");
    }
}
