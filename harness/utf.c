/* harness/utf.c — contracts and proof harnesses of the UTF unit (C01, C02, C03), mode B. */
static void utf_ghosts(void)
{
    GI0 = nondet_size_t(); GI1 = nondet_size_t(); G_BAD = 0; G_L1OOR = 0;
}

/* ------------------------------------------------------------ per-character functions: loop-free, full domain */
void h_write_utf8(void)
{
    uint32_t ch = nondet_unsigned();
    char *buf = malloc(4); __CPROVER_assume(buf != NULL);
    char g0 = buf[0], g1 = buf[1], g2 = buf[2], g3 = buf[3];
    char *dest = buf;
    stp_conversion_error_t r = stp_write_utf8(&dest, ch);
    if (ch <= 0x10FFFFu) {
        __CPROVER_assert(r == stp_conversion_error_t_success, "stp_write_utf8.postcondition.1: every scalar value up to U+10FFFF is encodable");
        __CPROVER_assert(dest == buf + LEN8(ch), "stp_write_utf8.postcondition.2: advances by the standard length");
        __CPROVER_assert((unsigned char)buf[0] == ENC8(ch, 0), "stp_write_utf8.postcondition.3: byte 0 is the standard encoding (Table 3-6)");
        __CPROVER_assert(LEN8(ch) < 2 || (unsigned char)buf[1] == ENC8(ch, 1), "stp_write_utf8.postcondition.4: byte 1 is the standard encoding");
        __CPROVER_assert(LEN8(ch) < 3 || (unsigned char)buf[2] == ENC8(ch, 2), "stp_write_utf8.postcondition.5: byte 2 is the standard encoding");
        __CPROVER_assert(LEN8(ch) < 4 || (unsigned char)buf[3] == ENC8(ch, 3), "stp_write_utf8.postcondition.6: byte 3 is the standard encoding");
        __CPROVER_assert((LEN8(ch) > 1 || buf[1] == g1) && (LEN8(ch) > 2 || buf[2] == g2) && (LEN8(ch) > 3 || buf[3] == g3), "stp_write_utf8.postcondition.7: nothing beyond the encoded length is written");
    } else {
        __CPROVER_assert(r == stp_conversion_error_t_out_of_range && dest == buf && buf[0] == g0, "stp_write_utf8.postcondition.8: values above U+10FFFF are refused and nothing is written");
    }
    __CPROVER_assert(stp_utf8_measure(ch) == W8_UNITS(1, ch), "stp_utf8_measure.postcondition.1: standard length, 3 (U+FFFD) above U+10FFFF");
}
void h_write_utf16(void)
{
    uint32_t ch = nondet_unsigned();
    uint16_t *buf = malloc(2 * sizeof(uint16_t)); __CPROVER_assume(buf != NULL);
    uint16_t g0 = buf[0], g1 = buf[1];
    uint16_t *dest = buf;
    stp_conversion_error_t r = stp_write_utf16(&dest, ch);
    if (ch <= 0x10FFFFu) {
        __CPROVER_assert(r == stp_conversion_error_t_success, "stp_write_utf16.postcondition.1: every scalar value up to U+10FFFF is encodable");
        __CPROVER_assert(dest == buf + LEN16(ch), "stp_write_utf16.postcondition.2: advances by the standard length");
        __CPROVER_assert(buf[0] == ENC16(ch, 0), "stp_write_utf16.postcondition.3: unit 0 is the standard encoding (D91)");
        __CPROVER_assert(LEN16(ch) < 2 ? buf[1] == g1 : buf[1] == ENC16(ch, 1), "stp_write_utf16.postcondition.4: unit 1 is the low surrogate, or untouched");
    } else {
        __CPROVER_assert(r == stp_conversion_error_t_out_of_range && dest == buf && buf[0] == g0, "stp_write_utf16.postcondition.5: values above U+10FFFF are refused and nothing is written");
    }
    __CPROVER_assert(stp_utf16_measure(ch) == W16_UNITS(1, ch), "stp_utf16_measure.postcondition.1: standard length, 1 (U+FFFD) above U+10FFFF");
}
void h_extract_utf8(void)
{
    size_t size = nondet_size_t(); __CPROVER_assume(size >= 1 && size < UTF_MAXN);
    size_t OFF = nondet_size_t(); __CPROVER_assume(OFF < size);
    unsigned char *s = malloc(size); __CPROVER_assume(s != NULL);
    const unsigned char *p = s + OFF;
    _Bool ok = U8_OK(s, OFF, size) != 0; size_t adv = U8_ADV(s, OFF, size);
    uint32_t r = stp_extract_utf8(&p, s + size);
    __CPROVER_assert(p == s + OFF + adv, "stp_extract_utf8.postcondition.1: advances by the length of the character, or by 1 for a unit that cannot stand");
    __CPROVER_assert(!ok || r == U8_VAL(s, OFF, size), "stp_extract_utf8.postcondition.2: a well-formed character decodes to its scalar value (no error bit)");
    __CPROVER_assert(ok || (r & 0x400000u) != 0, "stp_extract_utf8.postcondition.3: a unit that cannot stand yields an error value");
    __CPROVER_assert(!ok || stp_char_error(r) == stp_conversion_error_t_success, "stp_char_error.postcondition.1: decoded scalars carry no error");
    __CPROVER_assert(ok || stp_char_error(r) != stp_conversion_error_t_success, "stp_char_error.postcondition.2: error values are recognised");
}
void h_extract_utf16(void)
{
    size_t size = nondet_size_t(); __CPROVER_assume(size >= 1 && size < UTF_MAXN);
    size_t OFF = nondet_size_t(); __CPROVER_assume(OFF < size);
    uint16_t *s = malloc(size * sizeof(uint16_t)); __CPROVER_assume(s != NULL);
    const uint16_t *p = s + OFF;
    _Bool ok = U16_OK(s, OFF, size) != 0; size_t adv = U16_ADV(s, OFF, size);
    uint32_t r = stp_extract_utf16(&p, s + size);
    __CPROVER_assert(p == s + OFF + adv, "stp_extract_utf16.postcondition.1: advances by 2 for a surrogate pair (either order), else by 1");
    __CPROVER_assert(!ok || r == U16_VAL(s, OFF, size), "stp_extract_utf16.postcondition.2: a well-formed character decodes to its scalar value");
    __CPROVER_assert(ok || (r & 0x400000u) != 0, "stp_extract_utf16.postcondition.3: an unpaired surrogate yields an error value");
}
/* spec-level lemmas: reading the standard encoding of c gives back c (character-level round trip of any chain) */
void h_lemma_utf_roundtrip(void)
{
    unsigned c = nondet_unsigned(); __CPROVER_assume(c <= 0x10FFFFu && !(c >= 0xD800 && c <= 0xDFFF));
    unsigned char b[4]; b[0] = ENC8(c, 0); b[1] = ENC8(c, 1); b[2] = ENC8(c, 2); b[3] = ENC8(c, 3);
    size_t n = nondet_size_t(); __CPROVER_assume(n >= (size_t)LEN8(c) && n <= 4);
    __CPROVER_assert(U8_OK(b, 0, n) && U8_ADV(b, 0, n) == (size_t)LEN8(c) && U8_VAL(b, 0, n) == c, "lemma_utf.1: UTF-8 reader inverts the UTF-8 encoder");
    unsigned short u[2]; u[0] = ENC16(c, 0); u[1] = ENC16(c, 1);
    size_t m = nondet_size_t(); __CPROVER_assume(m >= (size_t)LEN16(c) && m <= 2);
    __CPROVER_assert(U16_OK(u, 0, m) && U16_ADV(u, 0, m) == (size_t)LEN16(c) && U16_VAL(u, 0, m) == c, "lemma_utf.2: UTF-16 reader inverts the UTF-16 encoder");
    __CPROVER_assert(W8_UNITS(1, c) == (size_t)LEN8(c) && W16_UNITS(1, c) == (size_t)LEN16(c) && W32_OUT(1, c, 0) == c, "lemma_utf.3: writers use the standard lengths for scalar values");
    unsigned char l = nondet_uchar();
    unsigned char e[2]; e[0] = W8_OUT(1, (unsigned)l, 0); e[1] = W8_OUT(1, (unsigned)l, 1);
    __CPROVER_assert(U8_OK(e, 0, 2) && U8_VAL(e, 0, 2) == l && WL1_OUT(1, (unsigned)l, 0) == l, "lemma_utf.4: Latin-1 byte -> UTF-8 -> Latin-1 is the identity");
}
void h_raise_conversion_error(void)
{
    stp_conversion_error_t err = nondet_int();
    __CPROVER_assume(err >= stp_conversion_error_t_success && err <= stp_conversion_error_t_latin1_out_of_range);
    ST_EXC = 0;
    stp_raise_conversion_error(err);
    __CPROVER_assert((ST_EXC == EXC_ST_unicode_error) == (err != stp_conversion_error_t_success) && (ST_EXC == 0 || ST_EXC == EXC_ST_unicode_error), "stp_raise_conversion_error.postcondition.1: raises ST::unicode_error exactly for a non-success code");
}
/* ------------------------------------------------------------ validate_utf8 / cleanup_utf8 */
void h_validate_utf8(void)
{
    utf_ghosts();
    size_t size = nondet_size_t(); __CPROVER_assume(size < UTF_MAXN);
    char *src = malloc(size); __CPROVER_assume(src != NULL);
    stp_conversion_error_t r = stp_validate_utf8(src, size);
    __CPROVER_assert(r == stp_conversion_error_t_success || G_BAD, "stp_validate_utf8.postcondition.1: a failure is reported only at a unit that cannot stand where it is");
}
void h_cleanup_utf8(void)
{
    utf_ghosts();
    size_t size = nondet_size_t(); __CPROVER_assume(size < UTF_MAXN);
    char *src = malloc(size); __CPROVER_assume(src != NULL);
    __CPROVER_assume(PHI(size) == 0 && PHI(0) <= 3 * size);
    char *out = NULL;
    if (nondet_bool()) { out = malloc(PHI(0)); __CPROVER_assume(out != NULL); }
    size_t r = stp_cleanup_utf8(out, src, size);
    __CPROVER_assert(r == PHI(0), "stp_cleanup_utf8.postcondition.1: the counting pass and the writing pass return the size of the repaired text");
}
