/* harness/string.c — contracts and proof harnesses for ST::string search / compare / slicing members (C06, C07, C08, C04), mode B.
 * The leaf loops (find_cs/ci with a needle, find_ci(char), compare_ci(l,r,n)) and char_traits calls are replaced by their
 * CONTRACTS (harness/leaf_stubs.h, contracts/prelude.h); everything between the public member and those leaves is the real
 * extracted code.  Postconditions state (a) the guards of the property text and (b) forwarding: what is searched / compared
 * and how the leaf's answer is mapped to the result.                                                                      */
#include "/verif/harness/string_common.h"
#define CS  ST_case_sensitivity_t_case_sensitive
#define CI_ ST_case_sensitivity_t_case_insensitive

/* ================================================================== C07: find family */
void h_str_find_char(void)       /* find(size_t start, char ch, cs) and the start-less forms */
{
    str_ghosts(); struct ST_string s; mk_str(&s); SNAP_STR(&s, s0);
    size_t start = nondet_size_t(); char ch = (char)nondet_uchar(); _Bool ci = nondet_bool();
    _Bool nostart = nondet_bool(); if (nostart) start = 0;
    ssize_t r = nostart ? ST_string_find__c_case_sensitivity_t_k(&s, ch, ci ? CI_ : CS) : ST_string_find__sz_c_case_sensitivity_t_k(&s, start, ch, ci ? CI_ : CS);
    __CPROVER_assert(start < s0_n || r == -1, "ST_string_find_char.postcondition.1: a start at or past the end gives -1");
    __CPROVER_assert(start >= s0_n || (TRF_CALLS == 1 && TRF_S == s0_c + start && TRF_N == s0_n - start && TRF_C == ch && (LF.calls == 1) == ci), "ST_string_find_char.postcondition.2: searches exactly [start, size) for the character, case-insensitively iff requested");
    __CPROVER_assert(start >= s0_n || r == (TRF_RET ? TRF_RET - s0_c : -1), "ST_string_find_char.postcondition.3: returns the index of the first occurrence found, or -1");
    __CPROVER_assert(STR_UNCHANGED(&s, s0), "ST_string_find_char.postcondition.4: the string is not modified");
    _Bool c = ST_string_contains__c_case_sensitivity_t_k(&s, ch, CS);
    __CPROVER_assert(c == (TRF_RET != NULL) || s0_n == 0, "ST_string_contains_char.postcondition.1: contains is true exactly when find succeeds");
}
/* needle forms: (start, const char*), (start, const char*, count), (start, const string&) and the start-less forms */
static void post_find_needle(const char *name, ssize_t r, _Bool guard_minus1, const char *s0_c, size_t s0_n, size_t start, const char *nd, size_t k, _Bool ci)
{
    __CPROVER_assert(!guard_minus1 || (r == -1 && LF.calls == 0), "ST_string_find_needle.postcondition.1: null or empty needle, or a start at or past the end, gives -1");
    __CPROVER_assert(guard_minus1 || (LF.calls == 1 && LF.kind == (ci ? LF_find_ci_needle : LF_find_cs_needle) && LF.h == s0_c + start && LF.n == s0_n - start && LF.nd == nd && LF.k == k),
        "ST_string_find_needle.postcondition.2: searches exactly [start, size) for exactly the given needle bytes (all of them, embedded NULs included), case-insensitively iff requested");
    __CPROVER_assert(guard_minus1 || r == (LF.ret ? LF.ret - s0_c : -1), "ST_string_find_needle.postcondition.3: returns the index of the first occurrence found, or -1");
}
void h_str_find_cstr(void)
{
    str_ghosts(); struct ST_string s; mk_str(&s); SNAP_STR(&s, s0);
    size_t start = nondet_size_t(); _Bool ci = nondet_bool(); size_t k; char *nd = mk_cstr(&k); if (nondet_bool()) { nd = NULL; k = 0; }
    _Bool nostart = nondet_bool(); if (nostart) start = 0;
    char first = nd ? nd[0] : 0;
    ssize_t r = nostart ? ST_string_find__pc_case_sensitivity_t_k(&s, nd, ci ? CI_ : CS) : ST_string_find__sz_pc_case_sensitivity_t_k(&s, start, nd, ci ? CI_ : CS);
    _Bool g = nd == NULL || first == 0 || start >= s0_n;
    __CPROVER_assert(g || (TRL_CALLS >= 1 && TRL_S == nd), "ST_string_find_cstr.postcondition.0: the needle length is the C-string length of the given pointer");
    post_find_needle("cstr", r, g, s0_c, s0_n, start, nd, TRL_RET, ci);
}
void h_str_find_ptrlen(void)
{
    str_ghosts(); struct ST_string s; mk_str(&s); SNAP_STR(&s, s0);
    size_t start = nondet_size_t(); _Bool ci = nondet_bool(); size_t k = nondet_size_t(); __CPROVER_assume(k < ST_MAXN);
    char *nd = nondet_bool() ? NULL : malloc(k); __CPROVER_assume(nd != NULL || k == 0 || nd == NULL);
    _Bool nostart = nondet_bool(); if (nostart) start = 0;
    ssize_t r = nostart ? ST_string_find__pc_sz_case_sensitivity_t_k(&s, nd, k, ci ? CI_ : CS) : ST_string_find__sz_pc_sz_case_sensitivity_t_k(&s, start, nd, k, ci ? CI_ : CS);
    post_find_needle("ptrlen", r, nd == NULL || k == 0 || start >= s0_n, s0_c, s0_n, start, nd, k, ci);
    _Bool c = ST_string_contains__pc_sz_case_sensitivity_t_k(&s, nd, k, ci ? CI_ : CS);
    __CPROVER_assert((nd == NULL || k == 0 || s0_n == 0) ? !c : c == (LF.ret != NULL), "ST_string_contains.postcondition.1: contains is true exactly when find succeeds");
}
void h_str_find_string(void)
{
    str_ghosts(); struct ST_string s; mk_str(&s); SNAP_STR(&s, s0); struct ST_string nd; mk_str(&nd);
    size_t start = nondet_size_t(); _Bool ci = nondet_bool();
    _Bool nostart = nondet_bool(); if (nostart) start = 0;
    ssize_t r = nostart ? ST_string_find__rstring_case_sensitivity_t_k(&s, &nd, ci ? CI_ : CS) : ST_string_find__sz_rstring_case_sensitivity_t_k(&s, start, &nd, ci ? CI_ : CS);
    post_find_needle("string", r, nd.m_buffer.m_size == 0 || start >= s0_n, s0_c, s0_n, start, nd.m_buffer.m_chars, nd.m_buffer.m_size, ci);
}
/* ================================================================== C07: starts_with / ends_with */
void h_str_starts_ends_string(void)
{
    str_ghosts(); struct ST_string s; mk_str(&s); SNAP_STR(&s, s0); struct ST_string p; mk_str(&p);
    _Bool ci = nondet_bool(); size_t k = p.m_buffer.m_size;
    if (nondet_bool()) {
        _Bool r = ST_string_starts_with__rstring_case_sensitivity_t_k(&s, &p, ci ? CI_ : CS);
        __CPROVER_assert(k <= s0_n || !r, "ST_string_starts_with.postcondition.1: a prefix longer than the string never matches");
        __CPROVER_assert(k > s0_n || (TRC_A == s0_c && TRC_B == p.m_buffer.m_chars && TRC_N == k && TRC_CI == ci && r == (TRC_R == 0)), "ST_string_starts_with.postcondition.2: true exactly when the first |prefix| bytes equal the prefix (modulo ASCII case iff requested); trivially true for an empty prefix");
    } else {
        _Bool r = ST_string_ends_with__rstring_case_sensitivity_t_k(&s, &p, ci ? CI_ : CS);
        __CPROVER_assert(k <= s0_n || !r, "ST_string_ends_with.postcondition.1: a suffix longer than the string never matches");
        __CPROVER_assert(k > s0_n || (TRC_A == s0_c + (s0_n - k) && TRC_B == p.m_buffer.m_chars && TRC_N == k && TRC_CI == ci && r == (TRC_R == 0)), "ST_string_ends_with.postcondition.2: true exactly when the last |suffix| bytes equal the suffix (all of them, embedded NULs included)");
    }
}
void h_str_starts_ends_cstr(void)
{
    str_ghosts(); struct ST_string s; mk_str(&s); SNAP_STR(&s, s0); size_t k; char *p = mk_cstr(&k); _Bool ci = nondet_bool();
    if (nondet_bool()) {
        _Bool r = ST_string_starts_with__pc_case_sensitivity_t_k(&s, p, ci ? CI_ : CS); k = TRL_RET;
        __CPROVER_assert(TRL_CALLS >= 1 && TRL_S == p, "ST_string_starts_with_cstr.postcondition.0: the prefix length is the C-string length of the given pointer");
        __CPROVER_assert(k <= s0_n || !r, "ST_string_starts_with_cstr.postcondition.1: a prefix longer than the string never matches");
        __CPROVER_assert(k > s0_n || (TRC_A == s0_c && TRC_B == p && TRC_N == k && TRC_CI == ci && r == (TRC_R == 0)), "ST_string_starts_with_cstr.postcondition.2: true exactly when the first strlen(prefix) bytes equal the prefix");
    } else {
        _Bool r = ST_string_ends_with__pc_case_sensitivity_t_k(&s, p, ci ? CI_ : CS); k = TRL_RET;
        __CPROVER_assert(TRL_CALLS >= 1 && TRL_S == p, "ST_string_ends_with_cstr.postcondition.0: the suffix length is the C-string length of the given pointer");
        __CPROVER_assert(k <= s0_n || !r, "ST_string_ends_with_cstr.postcondition.1: a suffix longer than the string never matches");
        __CPROVER_assert(k > s0_n || (TRC_A == s0_c + (s0_n - k) && TRC_B == p && TRC_N == k && TRC_CI == ci && r == (TRC_R == 0)), "ST_string_ends_with_cstr.postcondition.2: true exactly when the last strlen(suffix) bytes equal the suffix");
    }
    __CPROVER_assert(ST_string_starts_with__pc_case_sensitivity_t_k(&s, NULL, CS) && ST_string_ends_with__pc_case_sensitivity_t_k(&s, NULL, CS), "ST_string_starts_ends_null.postcondition.1: a null text is the empty text (trivially matches)");
}
/* ================================================================== C06: compare family (forwarding to the leaf compare contracts) */
void h_str_compare_string(void)
{
    str_ghosts(); struct ST_string s; mk_str(&s); struct ST_string o; mk_str(&o); SNAP_STR(&s, s0); _Bool ci = nondet_bool();
    size_t ls = s.m_buffer.m_size, rs = o.m_buffer.m_size, mn = ls < rs ? ls : rs;
    int sel = nondet_int(); __CPROVER_assume(sel >= 0 && sel <= 5);
    int r = 0; size_t cnt = nondet_size_t();
    size_t le = ls, re = rs;
    if (sel == 0) r = ST_string_compare__rstring_case_sensitivity_t_k(&s, &o, ci ? CI_ : CS);
    else if (sel == 1) { ci = 1; r = ST_string_compare_i__rstring_k(&s, &o); }
    else if (sel == 2) { r = ST_string_compare_n__rstring_sz_case_sensitivity_t_k(&s, &o, cnt, ci ? CI_ : CS); le = ls < cnt ? ls : cnt; re = rs < cnt ? rs : cnt; }
    else if (sel == 3) { ci = 1; r = ST_string_compare_ni__rstring_sz_k(&s, &o, cnt); le = ls < cnt ? ls : cnt; re = rs < cnt ? rs : cnt; }
    else if (sel == 4) { ci = 0; _Bool b = ST_string_op_eq__rstring_k(&s, &o); _Bool nb = ST_string_op_ne__rstring_k(&s, &o); r = b ? 0 : 1;
        __CPROVER_assert(b == !nb, "ST_string_operators.postcondition.1: != is the negation of =="); }
    else { ci = 0; _Bool lt = ST_string_op_lt(&s, &o); r = lt ? -1 : 0; }
    mn = le < re ? le : re;
    __CPROVER_assert(TRC_A == s.m_buffer.m_chars && TRC_B == o.m_buffer.m_chars && TRC_N == mn && TRC_CI == ci, "ST_string_compare.postcondition.1: compares the common prefix of the two contents (first n units for compare_n), case-insensitively iff requested");
    int expect = TRC_R != 0 ? SIGN(TRC_R) : (le < re ? -1 : le > re ? 1 : 0);
    if (sel <= 3) __CPROVER_assert(SIGN(r) == expect, "ST_string_compare.postcondition.2: first differing unit decides, then the (clipped) lengths, for operands of any length");
    if (sel == 4) __CPROVER_assert((r == 0) == (expect == 0), "ST_string_operators.postcondition.2: == agrees with compare() == 0");
    if (sel == 5) __CPROVER_assert((r < 0) == (expect < 0), "ST_string_operators.postcondition.3: < agrees with compare() < 0");
    __CPROVER_assert(STR_UNCHANGED(&s, s0), "ST_string_compare.postcondition.3: the string is not modified");
}
void h_str_compare_cstr(void)
{
    str_ghosts(); struct ST_string s; mk_str(&s); SNAP_STR(&s, s0); _Bool ci = nondet_bool();
    size_t rs; char *o = mk_cstr(&rs); _Bool isnull = nondet_bool(); if (isnull) { o = NULL; rs = 0; }
    size_t ls = s.m_buffer.m_size; size_t cnt = nondet_size_t();
    int sel = nondet_int(); __CPROVER_assume(sel >= 0 && sel <= 4);
    int r = 0; size_t le = ls, re = rs;
    if (sel == 0) r = ST_string_compare__pc_case_sensitivity_t_k(&s, o, ci ? CI_ : CS);
    else if (sel == 1) { ci = 1; r = ST_string_compare_i__pc_k(&s, o); }
    else if (sel == 2) { r = ST_string_compare_n__pc_sz_case_sensitivity_t_k(&s, o, cnt, ci ? CI_ : CS); le = ls < cnt ? ls : cnt; re = rs < cnt ? rs : cnt; }
    else if (sel == 3) { ci = 1; r = ST_string_compare_ni__pc_sz_k(&s, o, cnt); le = ls < cnt ? ls : cnt; re = rs < cnt ? rs : cnt; }
    else { ci = 0; _Bool b = ST_string_op_eq__pc_k(&s, o); _Bool nb = ST_string_op_ne__pc_k(&s, o); r = b ? 0 : 1; __CPROVER_assert(b == !nb, "ST_string_operators_cstr.postcondition.1: != is the negation of =="); }
    rs = isnull ? 0 : TRL_RET;   /* the C string's length is what length() reports for that pointer */
    __CPROVER_assert(isnull || (TRL_CALLS >= 1 && TRL_S == o), "ST_string_compare_cstr.postcondition.0: the operand's length is its C-string length");
    re = (sel == 2 || sel == 3) ? (rs < cnt ? rs : cnt) : rs;
    size_t mn = le < re ? le : re;
    __CPROVER_assert(TRC_A == s.m_buffer.m_chars && (isnull || TRC_B == o) && TRC_N == mn && TRC_CI == ci, "ST_string_compare_cstr.postcondition.1: compares the common prefix with the C string (a null pointer is the empty string)");
    int expect = TRC_R != 0 ? SIGN(TRC_R) : (le < re ? -1 : le > re ? 1 : 0);
    if (sel <= 3) __CPROVER_assert(SIGN(r) == expect, "ST_string_compare_cstr.postcondition.2: first differing unit decides, then the (clipped) lengths");
    else __CPROVER_assert((r == 0) == (expect == 0), "ST_string_operators_cstr.postcondition.2: == agrees with compare() == 0");
}
