/* harness/string_case.c — to_lower / to_upper: every byte of the result is the ASCII fold (resp. unfold) of the source byte at the same
 * position — so nothing but ASCII letters changes and the length is kept —, the source is not modified, the result owns its storage. */
#include "/verif/harness/string_common.h"
#ifndef CASE_UPPER
#define CASE_UPPER 0
#endif
void h_str_case(void)
{
    str_ghosts(); struct ST_string s; mk_str(&s); SNAP_STR(&s, s0); long live0 = ST_LIVE;
    GI1 = s0_n;       /* instantiation hint: the terminator index of the result */
#ifdef CASE_HEAP
    __CPROVER_assume(s0_n >= SL);
#endif
#ifdef CASE_SHORT
    __CPROVER_assume(s0_n < SL);
#endif
    char at2 = GI2 < s0_n ? s0_c[GI2] : 0;
    struct ST_string res;
    if (CASE_UPPER) ST_string_to_upper(&res, &s); else ST_string_to_lower(&res, &s);
    __CPROVER_assert(ST_EXC == 0 && STR_WF(&res) && res.m_buffer.m_size == s0_n, "ST_string_case.postcondition.1: the result is a well-formed string of the same length");
    __CPROVER_assert(!(GI2 < s0_n) || res.m_buffer.m_chars[GI2] == (CASE_UPPER ? UNFOLD(at2) : FOLD(at2)), "ST_string_case.postcondition.2: each byte is the source byte with ASCII letters mapped to the requested case and everything else unchanged");
    __CPROVER_assert(STR_UNCHANGED(&s, s0), "ST_string_case.postcondition.3: the source string is not modified");
    __CPROVER_assert((res.m_buffer.m_size < SL || res.m_buffer.m_chars != s0_c) && ST_LIVE == live0 + (s0_n >= SL ? 1 : 0), "ST_string_case.postcondition.4: the result owns its own storage; exactly its block is allocated");
}
