/* harness/string_split.c — contracts and proof harnesses for ST::string::split (3 forms), tokenize and replace (C09; frames for C04), mode B.
 *
 * Trusted / assumed in this file:
 *  - std::vector<ST::string> is an external container: the translator maps it to a two-field ghost record and maps
 *    emplace_back / push_back to std_vector_ST_string_push (tools/ast2c.py: vector_call).  Its assumed contract: push appends ONE
 *    element at the end (taking over the element's storage, leaving the source in the moved-from state the buffer move contract of C05
 *    guarantees) or, in fault mode, throws bad_alloc and changes nothing (strong guarantee); the destructor releases every element.
 *  - the needle searches find_cs / find_ci are replaced by their CONTRACT (proved for the real loops in the C07 leaf jobs): NULL, or
 *    the position q of an occurrence inside the range.  Because replace() scans the same text twice, the stub is additionally a
 *    FUNCTION of the start offset (NXT(off)): a C function without state returns the same answer for the same arguments and the
 *    same (unmodified, const) text.  Every call is checked to ask the right question (range = rest of the text, needle = the whole
 *    separator / pattern, case mode as requested): that is the forwarding part of each postcondition.
 *  - REM(off): number of result bytes the text from offset off contributes in replace() — a ghost function defined by well-founded
 *    recursion on NXT (REM(off) = N - off without a further occurrence, else (q - off) + |to| + REM(q + |from|)); the recurrence is
 *    assumed only at the offset the current step visits (DESIGN.md section 3).                                                     */
#define LEAF_FIND_CUSTOM 1     /* ghost declarations: spec/split_ghost.h */
#include "/verif/harness/string.c"
#include "/verif/harness/utf_stubs.h"

/* ---- the external vector ---- */
void std_vector_ST_string_ctor__v(struct std_vector_ST_string *self) { self->count = 0; self->owned = 0; }
void std_vector_ST_string_ctor__xvector(struct std_vector_ST_string *self, struct std_vector_ST_string *a0) { *self = *a0; a0->count = 0; a0->owned = 0; }
void std_vector_ST_string_dtor(struct std_vector_ST_string *self) { ST_LIVE -= self->owned; self->owned = 0; self->count = 0; }
void std_vector_ST_string_push(struct std_vector_ST_string *self, struct ST_string *a0)
{
    __CPROVER_assert(STR_WF(a0), "vector.push.precondition: the element appended is a well-formed string (size, terminator, storage class)");
    if (ST_FAULT && nondet_bool()) { ST_EXC = EXC_std_bad_alloc; return; }
    VEC.last_n = a0->m_buffer.m_size; VEC.last_at = GI0 < a0->m_buffer.m_size ? a0->m_buffer.m_chars[GI0] : 0; VEC.last_chars = a0->m_buffer.m_chars; VEC.pushes++;
    if (self->count == VEC.probe) { VEC.probe_n = VEC.last_n; VEC.probe_at = VEC.last_at; }
    self->count++;
    if (a0->m_buffer.m_size >= SL) self->owned++;          /* the vector's element takes the heap block over ... */
    a0->m_buffer.m_size = 0; a0->m_buffer.m_chars = a0->m_buffer.m_data; a0->m_buffer.m_data[0] = 0;      /* ... and the source is left moved-from (C05) */
}

/* ---- the search oracle ---- */
static const char *sr_find(int ci, const char *h, size_t n, const char *nd, size_t k)
{
    __CPROVER_assert(k >= 1, "find(needle).precondition: the needle is not empty (an empty separator or pattern must not be searched for)");
    __CPROVER_assert(__CPROVER_same_object(h, SR.base) && (size_t)__CPROVER_POINTER_OFFSET(h) - (size_t)__CPROVER_POINTER_OFFSET(SR.base) <= SR.n
                     && n == SR.n - ((size_t)__CPROVER_POINTER_OFFSET(h) - (size_t)__CPROVER_POINTER_OFFSET(SR.base)),
                     "C09.forwarding.1: each search runs over exactly the rest of the text, from the resume point to the end");
    __CPROVER_assert(nd == SR.nd && k == SR.k && ci == SR.ci, "C09.forwarding.2: each search looks for exactly the whole separator / pattern, case-insensitively iff requested");
    size_t off = (size_t)__CPROVER_POINTER_OFFSET(h) - (size_t)__CPROVER_POINTER_OFFSET(SR.base), q = NXT(off);
    __CPROVER_assume(q == SR.n || (k <= SR.n && off <= q && q <= SR.n - k));
    if (q != SR.n) __CPROVER_assume((GI1 < k ==> LEAF_EQ(ci, SR.base[q + GI1], nd[GI1])) && (GI2 < k ==> LEAF_EQ(ci, SR.base[q + GI2], nd[GI2])));   /* an occurrence at q */
    SR.calls++; SR.last_off = off; SR.last_q = q;
    return q == SR.n ? (const char *)0 : SR.base + q;
}
const char *stp_find_cs__pc_sz_pc_sz(const char *haystack, unsigned long size, const char *needle, unsigned long needle_size) { return sr_find(0, haystack, size, needle, needle_size); }
const char *stp_find_ci__pc_sz_pc_sz(const char *haystack, unsigned long size, const char *needle, unsigned long needle_size) { return sr_find(1, haystack, size, needle, needle_size); }

static void split_ghosts(const char *base, size_t n, const char *nd, size_t k, int ci)
{
    SR.base = base; SR.n = n; SR.nd = nd; SR.k = k; SR.ci = ci; SR.calls = 0; SR.last_off = 0; SR.last_q = 0;
    VEC.pushes = 0; VEC.probe = nondet_size_t(); VEC.last_n = 0; SPLIT_OFF = 0; SPLIT_CUTS = 0; SPLIT_LIVE0 = ST_LIVE;
}
/* postconditions common to the three split forms.  seplen: length of the separator; nocut: the separator is empty */
static void chk_split(const struct std_vector_ST_string *res, const char *s0_c, size_t s0_n, size_t max, size_t seplen, long live0)
{
    __CPROVER_assert(ST_EXC == 0, "ST_string_split.postcondition.1: splitting never throws (no allocation fault injected)");
    __CPROVER_assert(res->count >= 1 && res->count - 1 <= max && res->count - 1 == SPLIT_CUTS, "ST_string_split.postcondition.2: at most max cuts, hence at most max+1 pieces");
    __CPROVER_assert(seplen != 0 || (res->count == 1 && SPLIT_OFF == 0 && SR.calls == 0), "ST_string_split.postcondition.3: an empty separator leaves the text whole (one piece, nothing searched)");
    __CPROVER_assert(SPLIT_OFF <= s0_n && VEC.last_n == s0_n - SPLIT_OFF && (!(GI0 < VEC.last_n) || VEC.last_at == s0_c[SPLIT_OFF + GI0]),
                     "ST_string_split.postcondition.4: the last piece is the text from the last cut to the end (so joining the pieces with the separator reproduces the text)");
    __CPROVER_assert(seplen == 0 || SPLIT_CUTS == max || (SR.calls >= 1 && SR.last_off == SPLIT_OFF && SR.last_q == s0_n),
                     "ST_string_split.postcondition.5: cutting stops only after max cuts or when no further occurrence exists");
    __CPROVER_assert(ST_LIVE == live0 + res->owned && res->owned <= (long)res->count, "ST_string_split.postcondition.6: every heap block allocated belongs to a returned piece; nothing leaked");
}

void h_str_split_string(void)
{
    str_ghosts(); struct ST_string s; mk_str(&s); SNAP_STR(&s, s0); struct ST_string sep; mk_str(&sep); SNAP_STR(&sep, p0);
    size_t max = nondet_size_t(); _Bool ci = nondet_bool();
    split_ghosts(s0_c, s0_n, p0_c, p0_n, ci); long live0 = ST_LIVE; SPLIT_M0 = max;
    struct std_vector_ST_string res;
    ST_string_split__rstring_sz_case_sensitivity_t_k(&res, &s, &sep, max, ci ? CI_ : CS);
    chk_split(&res, s0_c, s0_n, max, p0_n, live0);
    __CPROVER_assert(STR_UNCHANGED(&s, s0) && STR_UNCHANGED(&sep, p0), "ST_string_split.postcondition.7: neither the text nor the separator is modified");
}
/* string(const char *, size_t, utf_validation_t): contract stub used by split(const char *).  Under assume_valid it is a plain copy
 * (the real from_validated code is used for the copy); under check_validity it either fails with unicode_error, constructing
 * nothing, or is the same copy (C02/C18: validate, then commit). */
#ifdef STUB_ST_string_ctor__pc_sz_utf_validation_t
void ST_string_ctor__pc_sz_utf_validation_t(struct ST_string *self, const char *cstr, unsigned long size, ST_utf_validation_t validation)
{
    SC.calls++; SC.v = validation;
    __CPROVER_assert(validation == ST_utf_validation_t_assume_valid || validation == ST_utf_validation_t_check_validity, "ST_string_split_cstr.postcondition.8: pieces are built unchecked, or re-validated when the separator contains bytes >= 0x80");
    if (validation == ST_utf_validation_t_check_validity && nondet_bool()) { ST_EXC = EXC_ST_unicode_error; return; }
    ST_string_from_validated__pc_sz(self, cstr, size);
}
#endif
void h_str_split_cstr(void)
{
    str_ghosts(); struct ST_string s; mk_str(&s); SNAP_STR(&s, s0); size_t cl; char *sep = mk_cstr(&cl);
    size_t max = nondet_size_t(); _Bool ci = nondet_bool();
    /* cl IS the C-string length of sep (no NUL before the terminator: instantiated at the arbitrary positions GI0, GI1): char_traits::length(sep) answers cl */
    __CPROVER_assume((GI0 >= cl || sep[GI0] != 0) && (GI1 >= cl || sep[GI1] != 0));
    TRL_S = sep; TRL_RET = cl; TRL_CALLS = 1;
    split_ghosts(s0_c, s0_n, sep, cl, ci); long live0 = ST_LIVE; SPLIT_M0 = max; SPLIT_SEPLEN = cl;
    struct std_vector_ST_string res;
    ST_string_split__pc_sz_case_sensitivity_t_k(&res, &s, sep, max, ci ? CI_ : CS);
    if (ST_EXC == EXC_ST_unicode_error) {
        __CPROVER_assert(SC.v == ST_utf_validation_t_check_validity && ST_LIVE == live0, "ST_string_split_cstr.postcondition.9: unicode_error only from re-validating a piece; nothing leaked");
    } else {
        __CPROVER_assert(TRL_CALLS >= 2 && TRL_S == sep, "ST_string_split_cstr.postcondition.0: the separator length is the C-string length of the given pointer");
        chk_split(&res, s0_c, s0_n, max, TRL_RET, live0);
    }
    __CPROVER_assert(STR_UNCHANGED(&s, s0), "ST_string_split.postcondition.7: the text is not modified");
}
void h_str_split_char(void)
{
    str_ghosts(); struct ST_string s; mk_str(&s); SNAP_STR(&s, s0);
    size_t max = nondet_size_t(); _Bool ci = nondet_bool(); char ch = (char)nondet_uchar();
    __CPROVER_assume(ch != 0 && (unsigned char)ch < 0x80);     /* documented precondition of split(char) (ST_ASSERT) */
    split_ghosts(s0_c, s0_n, NULL, 1, ci); long live0 = ST_LIVE; SPLIT_M0 = max; SPLIT_CH = ch;
    struct std_vector_ST_string res;
    ST_string_split__c_sz_case_sensitivity_t_k(&res, &s, ch, max, ci ? CI_ : CS);
    __CPROVER_assert(ST_EXC == 0, "ST_string_split.postcondition.1: splitting never throws (no allocation fault injected)");
    __CPROVER_assert(res.count >= 1 && res.count - 1 <= max && res.count - 1 == SPLIT_CUTS, "ST_string_split.postcondition.2: at most max cuts, hence at most max+1 pieces");
    __CPROVER_assert(SPLIT_OFF <= s0_n && VEC.last_n == s0_n - SPLIT_OFF && (!(GI0 < VEC.last_n) || VEC.last_at == s0_c[SPLIT_OFF + GI0]),
                     "ST_string_split.postcondition.4: the last piece is the text from the last cut to the end (so joining the pieces with the separator reproduces the text)");
    __CPROVER_assert(SPLIT_CUTS == max || (TRF_S == s0_c + SPLIT_OFF && TRF_N == s0_n - SPLIT_OFF && TRF_C == ch && TRF_RET == NULL),
                     "ST_string_split.postcondition.5: cutting stops only after max cuts or when no further occurrence exists");
    __CPROVER_assert(ST_LIVE == live0 + res.owned && res.owned <= (long)res.count, "ST_string_split.postcondition.6: every heap block allocated belongs to a returned piece; nothing leaked");
    __CPROVER_assert(STR_UNCHANGED(&s, s0), "ST_string_split.postcondition.7: the text is not modified");
}

/* ---- tokenize: membership in the delimiter set is the uninterpreted predicate IN_SET (prelude.h), answered by char_traits::find on the delimiter pointer ---- */
void h_str_tokenize(void)
{
    str_ghosts(); struct ST_string s; mk_str(&s); SNAP_STR(&s, s0); size_t cl; char *delims = mk_cstr(&cl); TRIM_CHARSET = delims;
    split_ghosts(s0_c, s0_n, NULL, 0, 0); long live0 = ST_LIVE;
    struct std_vector_ST_string res;
    ST_string_tokenize(&res, &s, delims);
    __CPROVER_assert(ST_EXC == 0, "ST_string_tokenize.postcondition.1: tokenizing never throws (no allocation fault injected)");
    __CPROVER_assert(SPLIT_OFF == s0_n, "ST_string_tokenize.postcondition.2: the whole text is scanned");
    __CPROVER_assert(ST_LIVE == live0 + res.owned && res.owned <= (long)res.count && res.count <= s0_n, "ST_string_tokenize.postcondition.6: every heap block allocated belongs to a returned token; nothing leaked");
    __CPROVER_assert(STR_UNCHANGED(&s, s0), "ST_string_tokenize.postcondition.7: the text is not modified");
}

/* ---- replace(from, to, cs) ---- */
void h_str_replace(void)
{
    str_ghosts(); struct ST_string s; mk_str(&s); SNAP_STR(&s, s0); struct ST_string from; mk_str(&from); SNAP_STR(&from, f0); struct ST_string to; mk_str(&to); SNAP_STR(&to, t0);
    _Bool ci = nondet_bool();
    split_ghosts(s0_c, s0_n, f0_c, f0_n, ci); long live0 = ST_LIVE;
    RP_TN = t0_n; RP_TO = t0_c; RP_GO = nondet_size_t(); RP_TAIL_OFF = 0;
    size_t total = (t0_n == f0_n) ? s0_n : REM(0);      /* reference length: size + k*(|to|-|from|) for the k occurrences found left to right */
#ifdef RP_NEQ
    __CPROVER_assume(t0_n != f0_n);
#endif
#ifdef RP_EQ
    __CPROVER_assume(t0_n == f0_n);
#endif
    __CPROVER_assume(total < ST_MAXN);                    /* precondition: the result fits the library's size range */
    __CPROVER_assume(BND(0));                             /* the scan starts at offset 0 */
    RP_TOTAL = total; GI3 = (s0_n == 0 || f0_n == 0) ? s0_n : total;                        /* GI3: instantiation hint, the terminator index of the result */
    struct ST_string res;
    ST_string_replace__rstring_rstring_case_sensitivity_t_k(&res, &s, &from, &to, ci ? CI_ : CS);
    if (ST_EXC == EXC_ST_unicode_error) {
        __CPROVER_assert(ST_LIVE == live0, "ST_string_replace.postcondition.9: when the assembled text is rejected as invalid UTF-8 nothing is leaked");
    } else {
        __CPROVER_assert(ST_EXC == 0, "ST_string_replace.postcondition.1: no other exception (no allocation fault injected)");
        __CPROVER_assert(STR_WF(&res), "ST_string_replace.postcondition.2: the result is a well-formed string");
        if (s0_n == 0 || f0_n == 0) {
            __CPROVER_assert(res.m_buffer.m_size == s0_n && (!(GI0 < s0_n) || res.m_buffer.m_chars[GI0] == s0_c[GI0]) && SR.calls == 0, "ST_string_replace.postcondition.3: an empty pattern (or empty text) leaves the text whole");
            __CPROVER_assert(ST_LIVE == live0 + (res.m_buffer.m_size >= SL ? 1 : 0), "ST_string_replace.postcondition.7: exactly the result's block is allocated; nothing leaked");
        } else {
            const char *r = res.m_buffer.m_chars; size_t tail = RP_TAIL_OFF;
            __CPROVER_assert(res.m_buffer.m_size == total, "ST_string_replace.postcondition.4: the result has length size + k*(|to| - |from|) for the k non-overlapping occurrences found left to right");
            __CPROVER_assert(RP_NO_CONTENT || SEG_OK(RP_GO, tail, r), "ST_string_replace.postcondition.5: every segment of the result is the text from a resume point up to the next occurrence, followed by the replacement (arbitrary segment, arbitrary position)");
            __CPROVER_assert(tail <= s0_n && NXT(tail) == s0_n && RP_TAIL_W + (s0_n - tail) == total && RP_TAIL_W == POSX(tail) && (RP_NO_CONTENT || !(RP_P >= POSX(tail) && RP_P < total) || r[RP_P] == s0_c[tail + (RP_P - POSX(tail))]),
                             "ST_string_replace.postcondition.6: after the last occurrence the rest of the text is copied verbatim and ends the result");
            __CPROVER_assert(ST_LIVE == live0 + (res.m_buffer.m_size >= SL ? 1 : 0), "ST_string_replace.postcondition.7: exactly the result's block is allocated; nothing leaked");
        }
        __CPROVER_assert(res.m_buffer.m_size < SL || (res.m_buffer.m_chars != s0_c && res.m_buffer.m_chars != t0_c && res.m_buffer.m_chars != f0_c), "ST_string_replace.postcondition.10: the result owns its own storage");
    }
    __CPROVER_assert(STR_UNCHANGED(&s, s0) && STR_UNCHANGED(&from, f0) && STR_UNCHANGED(&to, t0), "ST_string_replace.postcondition.8: the text, the pattern and the replacement are not modified");
}
