/* harness/string_set2.c — C18, second unit: the constructors from a char_buffer (lvalue / rvalue), set(const char16_t ptr / const char32_t ptr, size, v) and
 * to_buffer(char_buffer&, utf8, substitute): when the validation / conversion they rely on fails, the object being assigned, the rvalue argument
 * and the caller's result buffer keep their values and nothing is leaked.  The conversion wrappers are contract stubs (proved in the
 * conversion-wrapper unit, C03): a fresh well-formed buffer, or unicode_error with nothing allocated.                                         */
#define SET_HELPERS_ONLY 1
#include "/verif/harness/string_set.c"
struct { unsigned calls; const void *src; size_t n; int validation; _Bool sub; size_t rn; char rat; } CV;
static void conv_result(struct ST_buffer_char *__ret, const void *src, size_t n, int validation, _Bool may_fail)
{
    CV.calls++; CV.src = src; CV.n = n; CV.validation = validation;
    if (may_fail && nondet_bool()) { ST_EXC = EXC_ST_unicode_error; return; }
    mk_buf(__ret); CV.rn = __ret->m_size; CV.rat = GI0 < CV.rn ? __ret->m_chars[GI0] : 0;
}
#ifdef STUB_ST_utf16_to_utf8__pc16_sz_utf_validation_t
void ST_utf16_to_utf8__pc16_sz_utf_validation_t(struct ST_buffer_char *__ret, const uint16_t *utf16, unsigned long size, ST_utf_validation_t validation) { conv_result(__ret, utf16, size, (int)validation, validation == ST_utf_validation_t_check_validity); }
#endif
#ifdef STUB_ST_utf32_to_utf8__pc32_sz_utf_validation_t
void ST_utf32_to_utf8__pc32_sz_utf_validation_t(struct ST_buffer_char *__ret, const uint32_t *utf32, unsigned long size, ST_utf_validation_t validation) { conv_result(__ret, utf32, size, (int)validation, validation == ST_utf_validation_t_check_validity); }
#endif
#ifdef STUB_ST_utf8_to_latin_1__pc_sz_utf_validation_t_b
void ST_utf8_to_latin_1__pc_sz_utf_validation_t_b(struct ST_buffer_char *__ret, const char *utf8, unsigned long size, ST_utf_validation_t validation, _Bool substitute_out_of_range) { CV.sub = substitute_out_of_range; conv_result(__ret, utf8, size, (int)validation, validation == ST_utf_validation_t_check_validity || !substitute_out_of_range); }
#endif
/* ---- string(char_buffer &&, v) / string(const char_buffer &, v) ---- */
void h_str_ctor_buffer(void)
{
    str_ghosts(); struct ST_buffer_char b; mk_buf(&b); SNAP_BUF(&b, b0); ST_utf_validation_t v = any_validation(); _Bool rv = nondet_bool(); long live0 = ST_LIVE;
    GI1 = b0_n; GI2 = 0; GI3 = nondet_size_t(); VU.calls = 0; CU.calls = 0;
    struct ST_string t;
    if (rv) ST_string_ctor__xbufferc_utf_validation_t(&t, &b, v); else ST_string_ctor__rbufferc_utf_validation_t(&t, &b, v);
    if (ST_EXC != 0) {
        __CPROVER_assert(ST_EXC == EXC_ST_unicode_error && v == ST_utf_validation_t_check_validity && VU.calls == 1 && VU.ret != (int)stp_conversion_error_t_success, "ST_string_ctor_buffer.postcondition.1: the only exception is unicode_error, raised under check_validity when the validator rejects the bytes");
        __CPROVER_assert(BUF_UNCHANGED(&b, b0), "ST_string_ctor_buffer.postcondition.2: when construction fails the argument (also an rvalue) still holds its value");
        __CPROVER_assert(ST_LIVE == live0, "ST_string_ctor_buffer.postcondition.3: when construction fails nothing is leaked");
    } else {
        __CPROVER_assume(GI3 == t.m_buffer.m_size);
        __CPROVER_assert(v != ST_utf_validation_t_check_validity || (VU.calls == 1 && VU.buf == b0_c && VU.n == b0_n), "ST_string_ctor_buffer.postcondition.4: check_validity validated exactly the argument's bytes");
        __CPROVER_assert(v == ST_utf_validation_t_substitute_invalid || (t.m_buffer.m_size == b0_n && (!(GI0 < b0_n) || t.m_buffer.m_chars[GI0] == b0_at)), "ST_string_ctor_buffer.postcondition.5: the new string holds the argument's bytes");
        __CPROVER_assert(rv || BUF_UNCHANGED(&b, b0), "ST_string_ctor_buffer.postcondition.6: an lvalue argument is not modified");
    }
}
/* ---- set(const char16_t *, size, v) / set(const char32_t *, size, v) ---- */
void h_str_set_wide(void)
{
    str_ghosts(); struct ST_string t; mk_str(&t); SNAP_STR(&t, t0); ST_utf_validation_t v = any_validation(); _Bool w32 = nondet_bool(); long live0 = ST_LIVE;
    size_t n = nondet_size_t(); __CPROVER_assume(n < ((size_t)1 << 28)); void *src = malloc(n * 4); __CPROVER_assume(src != NULL);
    GI1 = nondet_size_t(); GI2 = t0_n; CV.calls = 0;
    if (w32) ST_string_set__pc32_sz_utf_validation_t(&t, (const uint32_t *)src, n, v); else ST_string_set__pc16_sz_utf_validation_t(&t, (const uint16_t *)src, n, v);
    __CPROVER_assert(CV.calls == 1 && CV.src == src && CV.n == n && CV.validation == (int)v, "ST_string_set_wide.postcondition.1: exactly the given units are converted, under the requested validation mode");
    if (ST_EXC != 0) {
        __CPROVER_assert(ST_EXC == EXC_ST_unicode_error && STR_UNCHANGED(&t, t0), "ST_string_set_wide.postcondition.2: when the conversion fails the target still holds its previous value (convert, then commit)");
        __CPROVER_assert(ST_LIVE == live0, "ST_string_set_wide.postcondition.3: when the conversion fails nothing is leaked or released");
    } else {
        __CPROVER_assume(GI1 == t.m_buffer.m_size);
        __CPROVER_assert(STR_WF(&t) && t.m_buffer.m_size == CV.rn && (!(GI0 < CV.rn) || t.m_buffer.m_chars[GI0] == CV.rat), "ST_string_set_wide.postcondition.4: the target holds exactly the conversion result");
        __CPROVER_assert(ST_LIVE == live0 - OWNS(t0_n) + OWNS(CV.rn), "ST_string_set_wide.postcondition.5: the old block is released; nothing leaked");
    }
}
/* ---- to_buffer(char_buffer &result, utf8, substitute_out_of_range) ---- */
void h_str_to_buffer(void)
{
    str_ghosts(); struct ST_string s; mk_str(&s); SNAP_STR(&s, s0); struct ST_buffer_char r; mk_buf(&r); SNAP_BUF(&r, r0); _Bool utf8 = nondet_bool(), sub = nondet_bool(); long live0 = ST_LIVE;
    GI1 = nondet_size_t(); GI2 = r0_n; GI3 = s0_n; CV.calls = 0;
    ST_string_to_buffer__rbufferc_b_b_k(&s, &r, utf8, sub);
    if (ST_EXC != 0) {
        __CPROVER_assert(ST_EXC == EXC_ST_unicode_error && !utf8, "ST_string_to_buffer.postcondition.1: only the Latin-1 conversion can fail (a character above U+00FF without substitution)");
        __CPROVER_assert(BUF_UNCHANGED(&r, r0), "ST_string_to_buffer.postcondition.2: when the conversion fails the caller's buffer still holds its previous value");
        __CPROVER_assert(ST_LIVE == live0, "ST_string_to_buffer.postcondition.3: when the conversion fails nothing is leaked or released");
    } else {
        __CPROVER_assume(GI1 == r.m_size);
        __CPROVER_assert(BUF_WF(&r), "ST_string_to_buffer.postcondition.4: the caller's buffer is well formed");
        if (utf8) __CPROVER_assert(r.m_size == s0_n && (!(GI0 < s0_n) || r.m_chars[GI0] == s0_at) && CV.calls == 0, "ST_string_to_buffer.postcondition.5: utf8: the buffer holds a copy of the string's bytes");
        else __CPROVER_assert(CV.calls == 1 && CV.src == (const void *)s0_c && CV.n == s0_n && CV.sub == sub && r.m_size == CV.rn && (!(GI0 < CV.rn) || r.m_chars[GI0] == CV.rat), "ST_string_to_buffer.postcondition.6: Latin-1: the buffer holds the conversion of exactly the string's bytes, with the requested substitution flag");
    }
    __CPROVER_assert(STR_UNCHANGED(&s, s0), "ST_string_to_buffer.postcondition.7: the string is not modified");
}
/* contract stubs of the Latin-1 measure / convert loops (proved in the UTF unit), in case to_buffer / to_latin_1 call them directly */
struct { unsigned calls; size_t ret; } M2;
#ifdef STUB_stp_latin_1_measure_from_utf8
size_t stp_latin_1_measure_from_utf8(const char *utf8, unsigned long size) { M2.calls++; size_t m = nondet_size_t(); __CPROVER_assume(m <= size); M2.ret = m; return m; }
#endif
#ifdef STUB_stp_latin_1_convert_from_utf8
stp_conversion_error_t stp_latin_1_convert_from_utf8(char *dest, const char *utf8, unsigned long size, ST_utf_validation_t validation, _Bool substitute_out_of_range)
{
    __CPROVER_assert(M2.ret == 0 || __CPROVER_w_ok(dest, M2.ret), "convert.precondition: the destination has room for the measured number of units");
    if (M2.ret != 0) __CPROVER_havoc_slice(dest, M2.ret);
    if ((validation == ST_utf_validation_t_check_validity || !substitute_out_of_range) && nondet_bool()) return stp_conversion_error_t_latin1_out_of_range;
    return stp_conversion_error_t_success;
}
#endif
