/* harness/string_hash.c — ST::hash / ST::hash_i: the value returned is HS(size): the FNV-1a recurrence over exactly the size() bytes at c_str()
 * (each byte case-folded first for hash_i) — a function of the byte sequence only (no pointer value, no storage class, no terminator);
 * the string is not modified. */
#include "/verif/harness/string_common.h"
#ifndef HASH_I
#define HASH_I 0
#endif
void h_str_hash(void)
{
    str_ghosts(); struct ST_string s; mk_str(&s); SNAP_STR(&s, s0);
    __CPROVER_assume(HS(0) == FNV64_BASIS);
    size_t r;
    if (HASH_I) { struct ST_hash_i h; r = ST_hash_i_op_call(&h, &s); } else { struct ST_hash h; r = ST_hash_op_call(&h, &s); }
    __CPROVER_assert(r == HS(s0_n), "ST_hash.postcondition.1: the hash is the FNV-1a recurrence over exactly the size() bytes of the string (case-folded for hash_i): equal (resp. case-folded equal) strings hash equal");
    __CPROVER_assert(STR_UNCHANGED(&s, s0), "ST_hash.postcondition.2: hashing does not modify the string");
}
