/* harness/sinks.c — C17: each concrete sink's two overrides refine the abstract sink contract the format driver is verified against
 * (C10/C11: fw_append / fw_append_char): append(data, size) hands exactly those size bytes, append_char(ch, count) exactly count copies
 * of ch, to the sink's medium, in order, and returns the writer itself.  Media: FILE* through fwrite / fputc (assumed contract: the
 * bytes given are appended to the stream's log; no short writes), ST::string_stream through its append / append_char (contracts
 * proved in the C16 unit).  Not decided here: what FILE* / basic_ostream do with the bytes afterwards (external library state).       */
struct { size_t calls; const void *ptr; size_t size, n; FILE *stream; } FWR;      /* last fwrite */
struct { size_t calls; int ch; FILE *stream; _Bool all_same; } FPC;               /* fputc calls */
size_t lc_fwrite(const void *ptr, size_t size, size_t n, FILE *stream)
{
    __CPROVER_assert(size * n == 0 || __CPROVER_r_ok(ptr, size * n), "fwrite.precondition: the bytes to write are readable");
    FWR.calls++; FWR.ptr = ptr; FWR.size = size; FWR.n = n; FWR.stream = stream;
    return n;
}
int lc_fputc(int ch, FILE *stream)
{
    if (FPC.calls == 0) { FPC.ch = ch; FPC.stream = stream; FPC.all_same = 1; }
    else if (FPC.ch != ch || FPC.stream != stream) FPC.all_same = 0;
    FPC.calls++;
    return (int)(unsigned char)ch;      /* C11 7.21.7.3: fputc returns the character written, converted to unsigned char and then int */
}
struct { size_t calls; struct ST_string_stream *self; const char *data; size_t size; } SSA;     /* string_stream::append */
struct { size_t calls; struct ST_string_stream *self; char ch; size_t count; } SSC;             /* string_stream::append_char */
#ifdef STUB_ST_string_stream_append
struct ST_string_stream *ST_string_stream_append(struct ST_string_stream *self, const char *data, unsigned long size)
{ SSA.calls++; SSA.self = self; SSA.data = data; SSA.size = size; if (nondet_bool()) { ST_EXC = EXC_std_bad_alloc; return (struct ST_string_stream *)0; } return self; }
#endif
#ifdef STUB_ST_string_stream_append_char
struct ST_string_stream *ST_string_stream_append_char(struct ST_string_stream *self, char ch, unsigned long count)
{ SSC.calls++; SSC.self = self; SSC.ch = ch; SSC.count = count; if (nondet_bool()) { ST_EXC = EXC_std_bad_alloc; return (struct ST_string_stream *)0; } return self; }
#endif
size_t SINK_COUNT0;
void h_sink_stdio(void)
{
    ST_EXC = 0; FWR.calls = 0; FPC.calls = 0; FPC.all_same = 1;
    struct stp_stdio_format_writer w; FILE *stream; w.m_stream = stream;
    size_t n = nondet_size_t(); __CPROVER_assume(n < ST_MAXN); char *data = malloc(n); __CPROVER_assume(data != NULL);
    if (nondet_bool()) {
        struct stp_stdio_format_writer *r = stp_stdio_format_writer_append(&w, data, n);
        __CPROVER_assert(FWR.calls == 1 && FWR.ptr == data && FWR.size == 1 && FWR.n == n && FWR.stream == stream && FPC.calls == 0, "stdio_format_writer_append.postcondition.1: exactly the given bytes, all of them, go to the writer's stream in one fwrite");
        __CPROVER_assert(r == &w && w.m_stream == stream && ST_EXC == 0, "stdio_format_writer_append.postcondition.2: returns the writer itself, stream unchanged, no exception");
    } else {
        char ch = (char)nondet_uchar(); size_t count = nondet_size_t(); SINK_COUNT0 = count;
        struct stp_stdio_format_writer *r = stp_stdio_format_writer_append_char(&w, ch, count);
        __CPROVER_assert(FPC.calls == count && FWR.calls == 0 && (count == 0 || (FPC.all_same && FPC.ch == (int)ch && FPC.stream == stream)), "stdio_format_writer_append_char.postcondition.1: exactly count copies of the character go to the writer's stream");
        __CPROVER_assert(r == &w && w.m_stream == stream && ST_EXC == 0, "stdio_format_writer_append_char.postcondition.2: returns the writer itself, stream unchanged, no exception");
    }
}
void h_sink_string(void)
{
    ST_EXC = 0; SSA.calls = 0; SSC.calls = 0;
    struct stp_string_format_writer w;
    size_t n = nondet_size_t(); __CPROVER_assume(n < ST_MAXN); char *data = malloc(n); __CPROVER_assume(data != NULL);
    if (nondet_bool()) {
        struct stp_string_format_writer *r = stp_string_format_writer_append(&w, data, n);
        __CPROVER_assert(SSA.calls == 1 && SSA.self == &w.m_output && SSA.data == data && SSA.size == n && SSC.calls == 0, "string_format_writer_append.postcondition.1: exactly the given bytes, all of them, are appended to the writer's string_stream");
        __CPROVER_assert(ST_EXC != 0 || r == &w, "string_format_writer_append.postcondition.2: returns the writer itself");
    } else {
        char ch = (char)nondet_uchar(); size_t count = nondet_size_t();
        struct stp_string_format_writer *r = stp_string_format_writer_append_char(&w, ch, count);
        __CPROVER_assert(SSC.calls == 1 && SSC.self == &w.m_output && SSC.ch == ch && SSC.count == count && SSA.calls == 0, "string_format_writer_append_char.postcondition.1: exactly count copies of the character are appended to the writer's string_stream");
        __CPROVER_assert(ST_EXC != 0 || r == &w, "string_format_writer_append_char.postcondition.2: returns the writer itself");
    }
}
