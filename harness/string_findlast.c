/* harness/string_findlast.c — contracts and proof harnesses of find_last (C07; C08 before_last / after_last rely on them), mode B.
 * The result is the LARGEST start of an occurrence lying entirely before the limit: the returned position is an occurrence, and for an
 * arbitrary candidate position G after it the search contract recorded a mismatch witness (no quantifier: DESIGN.md section 3).       */
#define LEAF_FACTS 1
#include "/verif/harness/string.c"
void h_str_find_last_needle(void)
{
    str_ghosts(); struct ST_string s; mk_str(&s); SNAP_STR(&s, s0);
    size_t max = nondet_size_t(); _Bool ci = nondet_bool(); size_t k = nondet_size_t(); __CPROVER_assume(k >= 1 && k < ST_MAXN);
    char *nd = malloc(k); __CPROVER_assume(nd != NULL);
    size_t G = nondet_size_t(); __CPROVER_assume(G < s0_n); FS_PROBE = s0_c + G; FS_HIT = 0;
    size_t lim = max > s0_n ? s0_n : max;
    ssize_t r = ST_string__find_last(&s, max, nd, k, ci ? CI_ : CS);
    __CPROVER_assert(r >= -1 && (r < 0 || (k <= lim && (size_t)r <= lim - k)), "ST_string_find_last.postcondition.1: -1, or the start of a candidate lying entirely before the limit min(max, size)");
    __CPROVER_assert(r < 0 || ((GI1 >= k || LEAF_EQ(ci, s0_c[(size_t)r + GI1], nd[GI1])) && (GI2 >= k || LEAF_EQ(ci, s0_c[(size_t)r + GI2], nd[GI2]))), "ST_string_find_last.postcondition.2: the returned position is an occurrence of the needle (modulo ASCII case iff requested)");
    __CPROVER_assert(!((r < 0 || G > (size_t)r) && k <= lim && G <= lim - k) || (FS_HIT && FS_WIT < k && !LEAF_EQ(ci, s0_c[G + FS_WIT], nd[FS_WIT])), "ST_string_find_last.postcondition.3: no later position before the limit is an occurrence (the result is the largest)");
    __CPROVER_assert(STR_UNCHANGED(&s, s0), "ST_string_find_last.postcondition.4: the string is not modified");
}
void h_str_find_last_char(void)
{
    str_ghosts(); struct ST_string s; mk_str(&s); SNAP_STR(&s, s0);
    size_t max = nondet_size_t(); _Bool ci = nondet_bool(); char ch = (char)nondet_uchar();
    size_t G = nondet_size_t(); __CPROVER_assume(G < s0_n); TRF_PROBE = s0_c + G;
    size_t lim = max > s0_n ? s0_n : max;
    ssize_t r = ST_string_find_last__sz_c_case_sensitivity_t_k(&s, max, ch, ci ? CI_ : CS);
    __CPROVER_assert(r >= -1 && (r < 0 || (size_t)r < lim), "ST_string_find_last_char.postcondition.1: -1, or an index before the limit min(max, size)");
    __CPROVER_assert(r < 0 || LEAF_EQ(ci, s0_c[(size_t)r], ch), "ST_string_find_last_char.postcondition.2: the returned position holds the character (modulo ASCII case iff requested)");
    __CPROVER_assert(!((r < 0 || G > (size_t)r) && G < lim) || !LEAF_EQ(ci, s0_c[G], ch), "ST_string_find_last_char.postcondition.3: no later position before the limit holds it (the result is the largest)");
    __CPROVER_assert(STR_UNCHANGED(&s, s0), "ST_string_find_last_char.postcondition.4: the string is not modified");
}
/* forwarding overloads: (max, const char*), (max, ptr, count), (max, string), and the max-less forms reach _find_last with exactly the needle */
struct { int calls; size_t max; const char *nd; size_t k; int ci; ssize_t ret; } FLR;
#ifdef STUB_ST_string__find_last
ssize_t ST_string__find_last(const struct ST_string *self, unsigned long max, const char *substr, unsigned long count, ST_case_sensitivity_t cs)
{
    __CPROVER_assert(count >= 1 && __CPROVER_r_ok(substr, count), "_find_last.precondition: needle readable and not empty");
    FLR.calls++; FLR.max = max; FLR.nd = substr; FLR.k = count; FLR.ci = (cs != CS);
    ssize_t r = (ssize_t)nondet_size_t(); __CPROVER_assume(r >= -1); FLR.ret = r; return r;
}
void h_str_find_last_forward(void)
{
    str_ghosts(); struct ST_string s; mk_str(&s); SNAP_STR(&s, s0); FLR.calls = 0;
    size_t max = nondet_size_t(); _Bool ci = nondet_bool(); _Bool nomax = nondet_bool(); if (nomax) max = (size_t)-1;
    size_t k; char *nd = mk_cstr(&k); struct ST_string nds; mk_str(&nds); size_t cnt = nondet_size_t(); __CPROVER_assume(cnt <= k);
    int sel = nondet_int(); __CPROVER_assume(sel >= 0 && sel <= 2); _Bool isnull = nondet_bool(); char first = nd[0];
    ssize_t r; const char *want_nd; size_t want_k; _Bool guard;
    if (sel == 0) { r = nomax ? ST_string_find_last__pc_case_sensitivity_t_k(&s, isnull ? NULL : nd, ci ? CI_ : CS) : ST_string_find_last__sz_pc_case_sensitivity_t_k(&s, max, isnull ? NULL : nd, ci ? CI_ : CS); want_nd = nd; want_k = TRL_RET; guard = isnull || first == 0 || s0_n == 0; }
    else if (sel == 1) { r = nomax ? ST_string_find_last__pc_sz_case_sensitivity_t_k(&s, isnull ? NULL : nd, cnt, ci ? CI_ : CS) : ST_string_find_last__sz_pc_sz_case_sensitivity_t_k(&s, max, isnull ? NULL : nd, cnt, ci ? CI_ : CS); want_nd = nd; want_k = cnt; guard = isnull || cnt == 0 || s0_n == 0; }
    else { r = nomax ? ST_string_find_last__rstring_case_sensitivity_t_k(&s, &nds, ci ? CI_ : CS) : ST_string_find_last__sz_rstring_case_sensitivity_t_k(&s, max, &nds, ci ? CI_ : CS); want_nd = nds.m_buffer.m_chars; want_k = nds.m_buffer.m_size; guard = want_k == 0 || s0_n == 0; }
    __CPROVER_assert(!guard || (r == -1 && FLR.calls == 0), "ST_string_find_last_forward.postcondition.1: a null or empty needle, or an empty string, gives -1");
    __CPROVER_assert(guard || (FLR.calls == 1 && FLR.nd == want_nd && FLR.k == want_k && FLR.ci == ci && (nomax ? FLR.max >= s0_n : FLR.max == max) && r == FLR.ret), "ST_string_find_last_forward.postcondition.2: searches for exactly the given needle bytes (all of them) below the given limit and returns that answer");
}
#endif
