/* harness/floatfmt.c — contracts and proof harnesses of floating-point formatting (C13), mode B.  What libc renders is trusted
 * (contracts/prelude.h, lc_snprintf); what IS decided here: the conversion specification handed to libc, pass-through of the value
 * and of the rendered bytes, padding, and that no rendering length - however long - aborts the process or overruns a buffer.   */
#include "/verif/harness/format.h"
#include "/verif/harness/numeric_stubs.h"
static struct ST_format_spec mk_spec(void) { struct ST_format_spec s; __CPROVER_assume(SPEC_RANGES(s)); return s; }
/* ---- ST::format with a double / float argument */
void h_format_type_double(void)
{
    fmt_ghosts(); FMT.calls = 0; SNP.calls = 0; struct ST_format_spec spec = mk_spec(); struct ST_format_writer w;
    double value = nondet_double(); _Bool as_float = nondet_bool(); float fv = nondet_float();
    GI1 = nondet_size_t(); __CPROVER_assume(GI1 < 10);    /* probe position inside the precision digits */
    GI0 = GI1; GI3 = GI1;                                 /* same position for every copy contract on the way */
    GI2 = nondet_size_t();                                /* probe position inside the rendering (prophecy, fixed below) */
    if (as_float) { ST_format_type__rformat_spec_rformat_writer_f(&spec, &w, fv); value = (double)fv; } else ST_format_type__rformat_spec_rformat_writer_d(&spec, &w, value);
    __CPROVER_assert(ST_EXC == 0, "ST_format_type_double.postcondition.1: formatting a floating-point value never throws");
    /* 1. the conversion specification: '%' ['+'] ['.' DEC(precision)] conv NUL */
    size_t i = 0; _Bool ok = SNP.calls >= 1 && SNP.fmt[i++] == '%';
    if (spec.always_signed) ok = ok && SNP.fmt[i++] == '+';
    if (spec.precision >= 0) {
        ok = ok && SNP.fmt[i++] == '.' && FMT.calls == 1 && FMT.value == (unsigned long long)(unsigned int)spec.precision && FMT.radix == 10 && FMT.k <= 10;
        ok = ok && (GI1 >= FMT.k || SNP.fmt[i + GI1] == FMT.at);
        i += FMT.k;
    } else ok = ok && FMT.calls == 0;
    char conv = spec.float_class == ST_float_class_t_float_exp ? 'e' : spec.float_class == ST_float_class_t_float_exp_upper ? 'E' : spec.float_class == ST_float_class_t_float_fixed ? 'f' : 'g';
    ok = ok && i < 31 && SNP.fmt[i] == conv && SNP.fmt[i + 1] == 0;
    __CPROVER_assert(ok, "ST_format_type_double.postcondition.2: libc is asked for exactly %[+][.precision]conv with conv in g f e E by float class, the decimal digits of the precision in between");
    __CPROVER_assert(__CPROVER_equal(SNP.value, value), "ST_format_type_double.postcondition.3: the value reaches libc unchanged (float widened to double)");
    /* 2. the output is the rendering, padded to the width */
    size_t r = (size_t)SNP.ret, width = spec.minimum_length > 0 ? (size_t)spec.minimum_length : 0, total = width > r ? width : r, padn = total - r;
    char pad = spec.pad ? spec.pad : ' ';
    __CPROVER_assert(OUT.len == total, "ST_format_type_double.postcondition.4: the whole rendering is emitted, however long, extended to the minimum width");
    _Bool left = spec.alignment == ST_alignment_t_align_left;
    if (OUT.P < total) {
        _Bool inpad = left ? OUT.P >= r : OUT.P < padn;
        size_t q = left ? OUT.P : OUT.P - padn;
        __CPROVER_assume(inpad || GI2 == q);
        __CPROVER_assert(OUT.hit && (inpad ? OUT.at == pad : (SNP.written == r && OUT.at == SNP.out_at)), "ST_format_type_double.postcondition.5: the bytes are exactly libc's rendering, pad characters on the side given by the alignment (numbers right by default)");
    }
}
/* ---- format_double / float_formatter / mini_format_float / from_double / from_float */
#ifndef FF_SEL
#define FF_SEL 0
#endif
void h_float_formatter(void)
{
    fmt_ghosts(); SNP.calls = 0; double value = nondet_double(); float fv = nondet_float(); char format = (char)nondet_uchar();
    GI2 = nondet_size_t(); GI0 = GI1 = GI3 = GI2; size_t term = nondet_size_t();
    _Bool valid = format == 'e' || format == 'f' || format == 'g' || format == 'E' || format == 'F' || format == 'G';
    size_t n = 0; const char *text = NULL; struct ST_float_formatter_double fd; struct ST_float_formatter_float ff; struct ST_string rs; struct ST_buffer_char rb;
#if FF_SEL == 0
    ST_float_formatter_double_ctor__v(&fd); ST_float_formatter_double_format(&fd, value, format); n = ST_float_formatter_double_size(&fd); text = ST_float_formatter_double_text(&fd);
#elif FF_SEL == 1
    ST_float_formatter_float_ctor__v(&ff); ST_float_formatter_float_format(&ff, fv, format); value = (double)fv; n = ST_float_formatter_float_size(&ff); text = ST_float_formatter_float_text(&ff);
#elif FF_SEL == 2
    ST_string_from_double(&rs, value, format); n = rs.m_buffer.m_size; text = rs.m_buffer.m_chars;
#else
    ST_string_from_float__f_c(&rs, fv, format); value = (double)fv; n = rs.m_buffer.m_size; text = rs.m_buffer.m_chars;
#endif
    if (!valid) { __CPROVER_assert(ST_EXC == EXC_ST_bad_format && SNP.calls == 0, "ST_float_formatter_format.postcondition.1: a conversion other than e f g E F G raises bad_format"); return; }
    __CPROVER_assert(ST_EXC == 0, "ST_float_formatter_format.postcondition.2: a supported conversion never throws and never aborts, whatever the value");
    __CPROVER_assert(SNP.calls == 1 && SNP.fmt[0] == '%' && SNP.fmt[1] == format && SNP.fmt[2] == 0 && __CPROVER_equal(SNP.value, value), "ST_float_formatter_format.postcondition.3: libc is asked for exactly %<conversion> of the unchanged value");
    __CPROVER_assert(n == (size_t)SNP.ret && SNP.written == n, "ST_float_formatter_format.postcondition.4: size() is the length of the complete rendering (nothing cut off)");
    __CPROVER_assert(GI2 >= n || text[GI2] == SNP.out_at, "ST_float_formatter_format.postcondition.5: text() is exactly libc's rendering");
}
