/* harness/numeric.h — shared definitions of the integer-printer contracts (C12): digit predicates (the specification of
 * positional notation, written from the property text), the record of what uint_formatter::format was asked to print, sink stubs. */
#ifndef ST_VERIF_NUMERIC_H
#define ST_VERIF_NUMERIC_H
/* canonical digit characters: 0-9, then letters in the requested case; value of a digit character */
#define DIGIT_VALUE(c) (((c) >= '0' && (c) <= '9') ? (c) - '0' : ((c) >= 'a' && (c) <= 'z') ? (c) - 'a' + 10 : ((c) >= 'A' && (c) <= 'Z') ? (c) - 'A' + 10 : 99)
#define IS_DIGIT_OF(c, radix, upper) (DIGIT_VALUE(c) < (radix) && (((c) >= '0' && (c) <= '9') || ((upper) ? ((c) >= 'A' && (c) <= 'Z') : ((c) >= 'a' && (c) <= 'z'))))
struct { int calls; unsigned long long value; int radix; _Bool upper; void *self; size_t k; char at; const char *start; } FMT;   /* last call of uint_formatter<T>::format (stub) */
struct { int calls; const char *text; size_t size; int ntype; } FNS;                                          /* last call of format_numeric_string (stub) */
static void num_ghosts(void) { GI0 = nondet_size_t(); GI1 = nondet_size_t(); GI2 = nondet_size_t(); GI3 = nondet_size_t(); ST_EXC = 0; ST_LIVE = 0; ST_FAULT = 0; FMT.calls = 0; FNS.calls = 0; }
/* decimal digit counts and powers of ten per width (for "a decimal rendering of a W-bit value has at most DEC_DIGITS_W digits") */
#define DEC_DIGITS_8 3
#define DEC_DIGITS_16 5
#define DEC_DIGITS_32 10
#define DEC_DIGITS_64 20
#define P10ULL(k) ((k) == 0 ? 1ull : (k) == 1 ? 10ull : (k) == 2 ? 100ull : (k) == 3 ? 1000ull : (k) == 4 ? 10000ull : (k) == 5 ? 100000ull : (k) == 6 ? 1000000ull : (k) == 7 ? 10000000ull : (k) == 8 ? 100000000ull : (k) == 9 ? 1000000000ull : \
    (k) == 10 ? 10000000000ull : (k) == 11 ? 100000000000ull : (k) == 12 ? 1000000000000ull : (k) == 13 ? 10000000000000ull : (k) == 14 ? 100000000000000ull : (k) == 15 ? 1000000000000000ull : \
    (k) == 16 ? 10000000000000000ull : (k) == 17 ? 100000000000000000ull : (k) == 18 ? 1000000000000000000ull : (k) == 19 ? 10000000000000000000ull : 0ull)
/* MAX / 10^K, and 0 once 10^K exceeds the type (so "value <= LIM10(K)" then means value == 0) */
#define LIM10_8(k) ((k) <= 2 ? 255ull / P10ULL(k) : 0ull)
#define LIM10_16(k) ((k) <= 4 ? 65535ull / P10ULL(k) : 0ull)
#define LIM10_32(k) ((k) <= 9 ? 4294967295ull / P10ULL(k) : 0ull)
#define LIM10_64(k) ((k) <= 19 ? 18446744073709551615ull / P10ULL(k) : 0ull)
#endif
