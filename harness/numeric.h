/* harness/numeric.h — shared definitions of the integer-printer contracts (C12): digit predicates (the specification of
 * positional notation, written from the property text), the record of what uint_formatter::format was asked to print, sink stubs. */
#ifndef ST_VERIF_NUMERIC_H
#define ST_VERIF_NUMERIC_H
/* canonical digit characters: 0-9, then letters in the requested case; value of a digit character */
#define DIGIT_VALUE(c) (((c) >= '0' && (c) <= '9') ? (c) - '0' : ((c) >= 'a' && (c) <= 'z') ? (c) - 'a' + 10 : ((c) >= 'A' && (c) <= 'Z') ? (c) - 'A' + 10 : 99)
#define IS_DIGIT_OF(c, radix, upper) (DIGIT_VALUE(c) < (radix) && (((c) >= '0' && (c) <= '9') || ((upper) ? ((c) >= 'A' && (c) <= 'Z') : ((c) >= 'a' && (c) <= 'z'))))
struct { int calls; unsigned long long value; int radix; _Bool upper; void *self; size_t k; char at; const char *start; } FMT;   /* last call of uint_formatter<T>::format (stub) */
struct { int calls; const char *text; size_t size; int ntype; } FNS;                                          /* last call of format_numeric_string (stub) */
static void num_ghosts(void) { GI0 = nondet_size_t(); GI1 = nondet_size_t(); GI2 = nondet_size_t(); GI3 = nondet_size_t(); ST_EXC = 0; ST_LIVE = 0; ST_FAULT = 0; FMT.calls = 0; FNS.calls = 0; }
#endif
