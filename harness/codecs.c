/* harness/codecs.c — contracts (PRE set-up / POST assertions) and proof harnesses for the
 * codec unit, mode B (plain CBMC, loops cut by the splicer).  Each POST is an obligation
 * named <function>.postcondition.<k>: <text>.                                              */


static void ghosts(void)
{
    GI0 = nondet_size_t(); GI1 = nondet_size_t(); GK = nondet_size_t();
    __CPROVER_assume(GK < ST_MAXN);
}

/* a well-formed ST::string of symbolic length < 2^40 with arbitrary bytes (NUL-terminated) */
static void mk_string(struct ST_string *s)
{
    size_t n = nondet_size_t(); __CPROVER_assume(n < ST_MAXN);
    char *in = malloc(n + 1); __CPROVER_assume(in != NULL); in[n] = 0;
    s->m_buffer.m_chars = in; s->m_buffer.m_size = n;
}

static void post_b64_decode(const unsigned char *in, size_t n, unsigned char *output, size_t output_size, ssize_t r);
static void post_hex_decode(const unsigned char *in, size_t n, unsigned char *output, size_t output_size, ssize_t r);
/* ------------------------------------------------------------------ b64_decode (C15, C14) */
void h_b64_decode(void)
{
    ghosts();
    struct ST_string s; mk_string(&s);
    const unsigned char *in = STR_IN(&s); size_t n = STR_N(&s);
    size_t output_size = nondet_size_t(); __CPROVER_assume(output_size < ST_MAXN);
    unsigned char *output = NULL;
    if (nondet_bool()) { output = malloc(output_size); __CPROVER_assume(output != NULL); }
    ssize_t r = stp_b64_decode(&s, output, output_size);
    post_b64_decode(in, n, output, output_size, r);
}
static void post_b64_decode(const unsigned char *in, size_t n, unsigned char *output, size_t output_size, ssize_t r)
{
#ifndef HYP_VALID
    __CPROVER_assert(output != NULL || r == ((n & 3) != 0 ? -1 : (ssize_t)B64_DECLEN(n, in)),
        "stp_b64_decode.postcondition.1: null output returns the length implied by size and padding (-1 if size is not a multiple of 4)");
    __CPROVER_assert(output == NULL || r == -1 || ((n & 3) == 0 && r == (ssize_t)B64_DECLEN(n, in) && (size_t)r <= output_size),
        "stp_b64_decode.postcondition.2: result is -1 or the implied length, never more than output_size");
    __CPROVER_assert(!(output != NULL && r >= 0 && GI0 < n) || B64_VALID_AT(in, n, GI0),
        "stp_b64_decode.postcondition.3: success implies every position holds an alphabet character or trailing '='");
    if (output != NULL && r >= 0 && GK + (GK << 1) < (size_t)r) {
        const unsigned char *q = in + (GK << 2);
        __CPROVER_assert(output[GK + (GK << 1)] == B64_DEC0(q), "stp_b64_decode.postcondition.4: byte 0 of every group is the RFC 4648 decoding");
        __CPROVER_assert(GK + (GK << 1) + 1 >= (size_t)r || output[GK + (GK << 1) + 1] == B64_DEC1(q), "stp_b64_decode.postcondition.5: byte 1 of every group is the RFC 4648 decoding");
        __CPROVER_assert(GK + (GK << 1) + 2 >= (size_t)r || output[GK + (GK << 1) + 2] == B64_DEC2(q), "stp_b64_decode.postcondition.6: byte 2 of every group is the RFC 4648 decoding");
    }
#else
    /* under the hypothesis that every visited position is acceptable: valid ==> success */
    __CPROVER_assert(!(output != NULL && (n & 3) == 0 && B64_DECLEN(n, in) <= output_size) || r >= 0,
        "stp_b64_decode.postcondition.7: a valid encoding that fits is accepted");
#endif
}

/* ------------------------------------------------------------------ hex_decode (C15, C14) */
void h_hex_decode(void)
{
    ghosts();
    struct ST_string s; mk_string(&s);
    const unsigned char *in = STR_IN(&s); size_t n = STR_N(&s);
    size_t output_size = nondet_size_t(); __CPROVER_assume(output_size < ST_MAXN);
    unsigned char *output = NULL;
    if (nondet_bool()) { output = malloc(output_size); __CPROVER_assume(output != NULL); }
    ssize_t r = stp_hex_decode(&s, output, output_size);
    post_hex_decode(in, n, output, output_size, r);
}
static void post_hex_decode(const unsigned char *in, size_t n, unsigned char *output, size_t output_size, ssize_t r)
{
#ifndef HYP_VALID
    __CPROVER_assert(output != NULL || r == ((n & 1) != 0 ? -1 : (ssize_t)(n >> 1)),
        "stp_hex_decode.postcondition.1: null output returns size/2 (-1 for odd size)");
    __CPROVER_assert(output == NULL || r == -1 || ((n & 1) == 0 && r == (ssize_t)(n >> 1) && (size_t)r <= output_size),
        "stp_hex_decode.postcondition.2: result is -1 or size/2, never more than output_size");
    __CPROVER_assert(!(output != NULL && r >= 0 && GI0 < n) || HEXVAL(in[GI0]) >= 0,
        "stp_hex_decode.postcondition.3: success implies every character is a hexadecimal digit");
    __CPROVER_assert(!(output != NULL && r >= 0 && GK < (size_t)r) || output[GK] == (unsigned char)((HEXVAL(in[GK << 1]) << 4) | HEXVAL(in[(GK << 1) + 1])),
        "stp_hex_decode.postcondition.4: every byte is the value of its digit pair (either case)");
#else
    __CPROVER_assert(!(output != NULL && (n & 1) == 0 && (n >> 1) <= output_size) || r >= 0,
        "stp_hex_decode.postcondition.5: an even-length string of hexadecimal digits that fits is accepted");
#endif
}

/* ------------------------------------------------------------------ hex_encode (C14) */
void h_hex_encode(void)
{
    ghosts();
    size_t n = nondet_size_t(); __CPROVER_assume(n < ST_MAXN);
    unsigned char *data = malloc(n); __CPROVER_assume(data != NULL);
    char *out = malloc((n << 1) + 1); __CPROVER_assume(out != NULL);
    char guard = nondet_uchar(); out[n << 1] = guard;
    stp_hex_encode(out, data, n);
    __CPROVER_assert(!(GK < n) || (out[GK << 1] == HEXCHAR(data[GK] >> 4) && out[(GK << 1) + 1] == HEXCHAR(data[GK] & 15)),
        "stp_hex_encode.postcondition.1: two lower-case hexadecimal digits per byte, high nibble first");
    __CPROVER_assert(out[n << 1] == guard, "stp_hex_encode.postcondition.2: exactly 2n characters are written");
}

/* ------------------------------------------------------------------ b64_encode (C14) */
void h_b64_encode(void)
{
    ghosts();
    size_t n = nondet_size_t(); __CPROVER_assume(n < ST_MAXN);
    size_t Q = nondet_size_t(); __CPROVER_assume(Q < ST_MAXN && n <= Q + (Q << 1) && Q + (Q << 1) < n + 3);   /* Q = ceil(n/3) */
    unsigned char *data = malloc(n); __CPROVER_assume(data != NULL);
    ENC_OUTLEN = Q << 2;
    char *out = malloc(ENC_OUTLEN + 1); __CPROVER_assume(out != NULL);
    char guard = nondet_uchar(); out[ENC_OUTLEN] = guard;
    stp_b64_encode(out, data, n);
    if (GK < Q) {
        size_t rem = n - (GK + (GK << 1)); if (rem > 3) rem = 3;
        const unsigned char *p = data + (GK + (GK << 1));
        __CPROVER_assert(out[GK << 2] == B64_ENC0(p, rem), "stp_b64_encode.postcondition.1: character 0 of every group is the RFC 4648 encoding");
        __CPROVER_assert(out[(GK << 2) + 1] == B64_ENC1(p, rem), "stp_b64_encode.postcondition.2: character 1 of every group is the RFC 4648 encoding");
        __CPROVER_assert(out[(GK << 2) + 2] == B64_ENC2(p, rem), "stp_b64_encode.postcondition.3: character 2 of every group is the RFC 4648 encoding (or '=')");
        __CPROVER_assert(out[(GK << 2) + 3] == B64_ENC3(p, rem), "stp_b64_encode.postcondition.4: character 3 of every group is the RFC 4648 encoding (or '=')");
    }
    __CPROVER_assert(out[ENC_OUTLEN] == guard, "stp_b64_encode.postcondition.5: exactly 4*ceil(n/3) characters are written");
}

/* ------------------------------------------------------------------ size functions (C14, C15) */
void h_b64_sizes(void)
{
    size_t n = nondet_size_t(); __CPROVER_assume(n < ST_MAXN);
    size_t Q = nondet_size_t(); __CPROVER_assume(Q < ST_MAXN && n <= Q + (Q << 1) && Q + (Q << 1) < n + 3);
    __CPROVER_assert(stp_b64_encode_size(n) == (Q << 2), "stp_b64_encode_size.postcondition.1: 4*ceil(n/3)");
    char *d = malloc(n + 1); __CPROVER_assume(d != NULL);
    ssize_t r = stp_b64_decode_size(n, d);
    __CPROVER_assert(r == ((n & 3) != 0 ? -1 : (ssize_t)B64_DECLEN(n, (const unsigned char *)d)), "stp_b64_decode_size.postcondition.1: length implied by size and padding");
}

/* ------------------------------------------------------------------ round-trip lemmas (C14), loop-free, full domain */
void h_lemma_b64_roundtrip(void)
{
    unsigned char p[3]; p[0] = nondet_uchar(); p[1] = nondet_uchar(); p[2] = nondet_uchar();
    size_t rem = nondet_size_t(); __CPROVER_assume(rem >= 1 && rem <= 3);
    unsigned char q[4];
    q[0] = (unsigned char)B64_ENC0(p, rem); q[1] = (unsigned char)B64_ENC1(p, rem); q[2] = (unsigned char)B64_ENC2(p, rem); q[3] = (unsigned char)B64_ENC3(p, rem);
    __CPROVER_assert(B64_ALPHA(q[0]) && B64_ALPHA(q[1]), "lemma_b64.1: the first two characters of a group are alphabet characters");
    __CPROVER_assert(rem > 1 ? B64_ALPHA(q[2]) : q[2] == '=', "lemma_b64.2: third character is an alphabet character or padding");
    __CPROVER_assert(rem > 2 ? B64_ALPHA(q[3]) : q[3] == '=', "lemma_b64.3: fourth character is an alphabet character or padding");
    __CPROVER_assert(B64_DEC0(q) == p[0], "lemma_b64.4: decode(encode(x)) byte 0");
    __CPROVER_assert(rem < 2 || B64_DEC1(q) == p[1], "lemma_b64.5: decode(encode(x)) byte 1");
    __CPROVER_assert(rem < 3 || B64_DEC2(q) == p[2], "lemma_b64.6: decode(encode(x)) byte 2");
}
void h_lemma_hex_roundtrip(void)
{
    unsigned char b = nondet_uchar();
    char hi = HEXCHAR(b >> 4), lo = HEXCHAR(b & 15);
    __CPROVER_assert(HEXVAL(hi) >= 0 && HEXVAL(lo) >= 0 && (unsigned char)((HEXVAL(hi) << 4) | HEXVAL(lo)) == b, "lemma_hex.1: decode(encode(b)) == b");
    char HI = (hi >= 'a' && hi <= 'f') ? (char)(hi - 32) : hi, LO = (lo >= 'a' && lo <= 'f') ? (char)(lo - 32) : lo;
    __CPROVER_assert((unsigned char)((HEXVAL(HI) << 4) | HEXVAL(LO)) == b, "lemma_hex.2: upper-case digits decode to the same byte");
    __CPROVER_assert((hi >= '0' && hi <= '9') || (hi >= 'a' && hi <= 'f'), "lemma_hex.3: encoder digits are lower-case hexadecimal");
}

/* ------------------------------------------------------------------ bounded real-state runs (cross-check and source of
 * replayable counterexamples; never counted as proved).  Loops are NOT cut in this unit; inputs are named R_* so that the
 * runner can hand them to the native replay program (replay/codecs.cpp).                                                  */
#ifdef BOUNDED
unsigned char R_IN[BOUNDED + 1]; size_t R_N; size_t R_OSZ; int R_HASOUT;
static void mk_bounded_string(struct ST_string *s)
{
    R_N = nondet_size_t(); __CPROVER_assume(R_N <= BOUNDED);
    char *in = malloc(R_N + 1); __CPROVER_assume(in != NULL);
    for (size_t i = 0; i < BOUNDED; i++) { R_IN[i] = nondet_uchar(); if (i < R_N) in[i] = (char)R_IN[i]; }
    in[R_N] = 0;
    s->m_buffer.m_chars = in; s->m_buffer.m_size = R_N;
}
void hb_b64_decode(void)
{
    ghosts();
    struct ST_string s; mk_bounded_string(&s);
    R_OSZ = nondet_size_t(); __CPROVER_assume(R_OSZ <= BOUNDED); R_HASOUT = nondet_bool();
    unsigned char *output = NULL;
    if (R_HASOUT) { output = malloc(R_OSZ); __CPROVER_assume(output != NULL); }
    ssize_t r = stp_b64_decode(&s, output, R_OSZ);
    post_b64_decode(STR_IN(&s), R_N, output, R_OSZ, r);
    if (output != NULL && (R_N & 3) == 0 && B64_DECLEN(R_N, STR_IN(&s)) <= R_OSZ) {
        _Bool valid = 1;
        for (size_t i = 0; i < BOUNDED; i++) if (i < R_N && !B64_VALID_AT(STR_IN(&s), R_N, i)) valid = 0;
        __CPROVER_assert(!valid || r >= 0, "stp_b64_decode.postcondition.7: a valid encoding that fits is accepted");
    }
}
void hb_hex_decode(void)
{
    ghosts();
    struct ST_string s; mk_bounded_string(&s);
    R_OSZ = nondet_size_t(); __CPROVER_assume(R_OSZ <= BOUNDED); R_HASOUT = nondet_bool();
    unsigned char *output = NULL;
    if (R_HASOUT) { output = malloc(R_OSZ); __CPROVER_assume(output != NULL); }
    ssize_t r = stp_hex_decode(&s, output, R_OSZ);
    post_hex_decode(STR_IN(&s), R_N, output, R_OSZ, r);
    if (output != NULL && (R_N & 1) == 0 && (R_N >> 1) <= R_OSZ) {
        _Bool valid = 1;
        for (size_t i = 0; i < BOUNDED; i++) if (i < R_N && HEXVAL(STR_IN(&s)[i]) < 0) valid = 0;
        __CPROVER_assert(!valid || r >= 0, "stp_hex_decode.postcondition.5: an even-length string of hexadecimal digits that fits is accepted");
    }
}
void hb_b64_encode(void)
{
    ghosts();
    R_N = nondet_size_t(); __CPROVER_assume(R_N <= BOUNDED);
    size_t Q = (R_N + 2) / 3;
    unsigned char *data = malloc(R_N); __CPROVER_assume(data != NULL);
    for (size_t i = 0; i < BOUNDED; i++) { R_IN[i] = nondet_uchar(); if (i < R_N) data[i] = R_IN[i]; }
    char *out = malloc((Q << 2) + 1); __CPROVER_assume(out != NULL);
    char guard = nondet_uchar(); out[Q << 2] = guard;
    stp_b64_encode(out, data, R_N);
    if (GK < Q) {
        size_t rem = R_N - (GK + (GK << 1)); if (rem > 3) rem = 3;
        const unsigned char *p = data + (GK + (GK << 1));
        __CPROVER_assert(out[GK << 2] == B64_ENC0(p, rem), "stp_b64_encode.postcondition.1: character 0 of every group is the RFC 4648 encoding");
        __CPROVER_assert(out[(GK << 2) + 1] == B64_ENC1(p, rem), "stp_b64_encode.postcondition.2: character 1 of every group is the RFC 4648 encoding");
        __CPROVER_assert(out[(GK << 2) + 2] == B64_ENC2(p, rem), "stp_b64_encode.postcondition.3: character 2 of every group is the RFC 4648 encoding (or '=')");
        __CPROVER_assert(out[(GK << 2) + 3] == B64_ENC3(p, rem), "stp_b64_encode.postcondition.4: character 3 of every group is the RFC 4648 encoding (or '=')");
    }
    __CPROVER_assert(out[Q << 2] == guard, "stp_b64_encode.postcondition.5: exactly 4*ceil(n/3) characters are written");
}
void hb_hex_encode(void)
{
    ghosts();
    R_N = nondet_size_t(); __CPROVER_assume(R_N <= BOUNDED);
    unsigned char *data = malloc(R_N); __CPROVER_assume(data != NULL);
    for (size_t i = 0; i < BOUNDED; i++) { R_IN[i] = nondet_uchar(); if (i < R_N) data[i] = R_IN[i]; }
    char *out = malloc((R_N << 1) + 1); __CPROVER_assume(out != NULL);
    char guard = nondet_uchar(); out[R_N << 1] = guard;
    stp_hex_encode(out, data, R_N);
    __CPROVER_assert(!(GK < R_N) || (out[GK << 1] == HEXCHAR(data[GK] >> 4) && out[(GK << 1) + 1] == HEXCHAR(data[GK] & 15)),
        "stp_hex_encode.postcondition.1: two lower-case hexadecimal digits per byte, high nibble first");
    __CPROVER_assert(out[R_N << 1] == guard, "stp_hex_encode.postcondition.2: exactly 2n characters are written");
}
#endif
