/* harness/numparse.c — contracts and proof harnesses of ST::string::to_long ... to_double (C12, C13): loop-free code around the
 * C library's strto* (assumed contract in prelude.h: value uninterpreted, end pointer inside [s, s + strlen(s)]).
 * Postconditions, from the property text: the value is exactly what the library returned for c_str() in the given base (narrowed to
 * the result type); ok <=> at least one character consumed; full_match <=> all size() characters consumed; empty string: full match, not ok. */
#define SLN (sizeof(((struct ST_buffer_char *)0)->m_data))
#define R_OK 1
#define R_FULL 2
static void np_ghosts(void) { GI0 = nondet_size_t(); GI1 = nondet_size_t(); GI2 = nondet_size_t(); ST_EXC = 0; ST_LIVE = 0; ST_FAULT = 0; LC.calls = 0; }
static void mk_np_str(struct ST_string *s)
{
    size_t n = nondet_size_t(); __CPROVER_assume(n < ST_MAXN);
    s->m_buffer.m_size = n;
    if (n < SLN) s->m_buffer.m_chars = s->m_buffer.m_data; else { s->m_buffer.m_chars = malloc(n + 1); __CPROVER_assume(s->m_buffer.m_chars != NULL); }
    __CPROVER_assume(s->m_buffer.m_chars[n] == 0);
    size_t l = nondet_size_t(); __CPROVER_assume(l <= n && s->m_buffer.m_chars[l] == 0);   /* C-string length: an embedded NUL may end it early */
    LC_STRLEN = l;
}
#ifndef NP_SEL
#define NP_SEL 0
#endif
/* one job per target type; `with_result` chooses the overload that reports ok/full_match */
void h_numparse(void)
{
    np_ghosts(); struct ST_string s; mk_np_str(&s); const char *c = s.m_buffer.m_chars; size_t n = s.m_buffer.m_size;
    int base = nondet_int(); __CPROVER_assume(base == 0 || (base >= 2 && base <= 36));
    _Bool with_result = nondet_bool(); struct ST_conversion_result res; res.m_flags = nondet_int();
    int want; _Bool value_ok;
#if NP_SEL == 0
    long v = with_result ? ST_string_to_long__rconversion_result_i_k(&s, &res, base) : ST_string_to_long__i_k(&s, base); want = LC_strtol; value_ok = (v == (long)LC.sret);
#elif NP_SEL == 1
    long long v = with_result ? ST_string_to_long_long__rconversion_result_i_k(&s, &res, base) : ST_string_to_long_long__i_k(&s, base); want = LC_strtoll; value_ok = (v == LC.sret);
#elif NP_SEL == 2
    int v = with_result ? ST_string_to_int__rconversion_result_i_k(&s, &res, base) : ST_string_to_int__i_k(&s, base); want = LC_strtol; value_ok = (v == (int)(long)LC.sret);
#elif NP_SEL == 3
    short v = with_result ? ST_string_to_short__rconversion_result_i_k(&s, &res, base) : ST_string_to_short__i_k(&s, base); want = LC_strtol; value_ok = (v == (short)(long)LC.sret);
#elif NP_SEL == 4
    unsigned long v = with_result ? ST_string_to_ulong__rconversion_result_i_k(&s, &res, base) : ST_string_to_ulong__i_k(&s, base); want = LC_strtoul; value_ok = (v == (unsigned long)LC.uret);
#elif NP_SEL == 5
    unsigned long long v = with_result ? ST_string_to_ulong_long__rconversion_result_i_k(&s, &res, base) : ST_string_to_ulong_long__i_k(&s, base); want = LC_strtoull; value_ok = (v == LC.uret);
#elif NP_SEL == 6
    unsigned int v = with_result ? ST_string_to_uint__rconversion_result_i_k(&s, &res, base) : ST_string_to_uint__i_k(&s, base); want = LC_strtoul; value_ok = (v == (unsigned int)(unsigned long)LC.uret);
#elif NP_SEL == 7
    unsigned short v = with_result ? ST_string_to_ushort__rconversion_result_i_k(&s, &res, base) : ST_string_to_ushort__i_k(&s, base); want = LC_strtoul; value_ok = (v == (unsigned short)(unsigned long)LC.uret);
#elif NP_SEL == 8
    double v = with_result ? ST_string_to_double__rconversion_result_k(&s, &res) : ST_string_to_double__v_k(&s); want = LC_strtod; value_ok = __CPROVER_equal(v, LC.dret); base = 0;
#else
    float v = with_result ? ST_string_to_float__rconversion_result_k(&s, &res) : ST_string_to_float__v_k(&s); want = LC_strtof; value_ok = __CPROVER_equal(v, LC.fret); base = 0;
#endif
    if (with_result && n == 0) {
        __CPROVER_assert(LC.calls == 0 && v == 0 && res.m_flags == R_FULL, "ST_string_to_number.postcondition.1: an empty string is a full match without ok, value 0");
    } else {
        __CPROVER_assert(LC.calls == 1 && LC.which == want && LC.s == c && LC.base == base, "ST_string_to_number.postcondition.2: parses c_str() with the library routine of the result's width and the given base");
        __CPROVER_assert(value_ok, "ST_string_to_number.postcondition.3: returns exactly the library's value (narrowed to the result type)");
        if (with_result) {
            __CPROVER_assert(LC.has_end && ((res.m_flags & R_OK) != 0) == (LC.endoff != 0), "ST_string_to_number.postcondition.4: ok means at least one character was consumed");
            __CPROVER_assert(((res.m_flags & R_FULL) != 0) == (LC.endoff == n), "ST_string_to_number.postcondition.5: full_match means all size() characters were consumed (not merely up to an embedded NUL)");
            __CPROVER_assert((res.m_flags & ~(R_OK | R_FULL)) == 0, "ST_string_to_number.postcondition.6: no other flag is set");
        }
    }
    __CPROVER_assert(s.m_buffer.m_chars == c && s.m_buffer.m_size == n, "ST_string_to_number.postcondition.7: the string is not modified");
}
