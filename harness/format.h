/* harness/format.h — sink model and ghost state shared by the format units (C10, C11, C13, C17).
 * The abstract sink (virtual format_writer::append / append_char) records the total length written and, for ONE arbitrary probe
 * position OUT.P, the byte written there (arrays are out of reach: DESIGN.md section 9) - which is a universally quantified statement
 * about the output.  Preconditions of the sink are memory-safety obligations of its callers.                                      */
#ifndef ST_VERIF_FORMAT_H
#define ST_VERIF_FORMAT_H
struct { size_t len; size_t P; _Bool hit; char at; size_t src; unsigned calls; int last_kind; const char *last_data; size_t last_size; char last_ch; } OUT;
const char *FB; size_t FLEN; size_t NEXT_SRC, K0, OUT_LEN0;
#define OUT_MAX ((size_t)1 << 40)
#ifdef STUB_ST_format_writer_append__pc_sz
struct ST_format_writer *ST_format_writer_append__pc_sz(struct ST_format_writer *self, const char *data, unsigned long size)
{
    __CPROVER_assert(size <= OUT_MAX && (size == 0 || __CPROVER_r_ok(data, size)), "format_writer::append.precondition: data readable for exactly size bytes (no wrapped length)");
    if (FB != (const char *)0 && __CPROVER_same_object(data, FB)) {     /* literal text of the format string: must continue exactly where the previous piece ended */
        __CPROVER_assert((size_t)__CPROVER_POINTER_OFFSET(data) == NEXT_SRC, "format_writer::append(literal).precondition: literal pieces are emitted in order without gap or overlap");
        if (OUT.P >= OUT.len && OUT.P - OUT.len < size) OUT.src = NEXT_SRC + (OUT.P - OUT.len);
        NEXT_SRC += size;
    }
    if (OUT.P >= OUT.len && OUT.P - OUT.len < size) { OUT.hit = 1; OUT.at = data[OUT.P - OUT.len]; }
    OUT.len += size; OUT.calls++; OUT.last_kind = 1; OUT.last_data = data; OUT.last_size = size;
    return self;
}
#endif
#ifdef STUB_ST_format_writer_append_char
struct ST_format_writer *ST_format_writer_append_char(struct ST_format_writer *self, char ch, unsigned long count)
{
    __CPROVER_assert(count <= OUT_MAX, "format_writer::append_char.precondition: the repeat count is not a wrapped (negative) length");
    if (OUT.P >= OUT.len && OUT.P - OUT.len < count) { OUT.hit = 1; OUT.at = ch; }
    OUT.len += count; OUT.calls++; OUT.last_kind = 2; OUT.last_ch = ch; OUT.last_size = count;
    return self;
}
#endif
static void fmt_ghosts(void)
{
    GI0 = nondet_size_t(); GI1 = nondet_size_t(); GI2 = nondet_size_t(); GI3 = nondet_size_t(); ST_EXC = 0; ST_LIVE = 0; ST_FAULT = 0;
    OUT.len = 0; OUT.P = nondet_size_t(); OUT.hit = 0; OUT.at = 0; OUT.calls = 0; OUT.src = 0; FB = 0; FLEN = 0; NEXT_SRC = 0; K0 = 0; OUT_LEN0 = 0; LC.calls = 0; LC_BASE = 0;
}
struct ST_format_spec;
static void parse_step_check(const struct ST_format_spec *o, const struct ST_format_spec *n, size_t km_old, size_t km);
#define PARSE_STEP_CHECK(o, n, a, b) parse_step_check(&(o), &(n), a, b)
#define SPEC_RANGES(s) ((int)(s).alignment >= 0 && (int)(s).alignment <= 2 && (int)(s).digit_class >= 0 && (int)(s).digit_class <= 6 && (int)(s).float_class >= 0 && (int)(s).float_class <= 3)
#endif
