/* harness/numeric_callers.h — postconditions shared by the callers of uint_formatter<T>::format (mini_format_int_*, from_int/from_uint,
 * format_numeric_s/u).  "The three printers agree" = each of them hands the SAME magnitude, radix and case to the same formatter and
 * emits exactly its text (with '-' for negatives). */
#define BL (sizeof(((struct ST_buffer_char *)0)->m_data))
#define BUF_WF(b) ((b)->m_size < ST_MAXN && ((b)->m_size < BL ? (b)->m_chars == (b)->m_data : (__CPROVER_DYNAMIC_OBJECT((b)->m_chars) && __CPROVER_OBJECT_SIZE((b)->m_chars) == (b)->m_size + 1 && __CPROVER_POINTER_OFFSET((b)->m_chars) == 0)) && (b)->m_chars[(b)->m_size] == 0)
static void post_mini(const struct ST_buffer_char *res, _Bool neg, unsigned long long mag, int radix, _Bool upper, const char *name)
{
    __CPROVER_assert(ST_EXC == 0, "mini_format_int.postcondition.1: never throws (the digits always fit)");
    __CPROVER_assert(FMT.calls == 1 && FMT.value == mag && FMT.radix == radix && FMT.upper == upper, "mini_format_int.postcondition.2: formats exactly the magnitude |value| (computed without overflow, most negative value included) in the requested base and case");
    __CPROVER_assert(BUF_WF(res) && res->m_size == FMT.k + (neg ? 1 : 0), "mini_format_int.postcondition.3: the result is a well-formed buffer holding the digits, preceded by one sign character for negatives");
    __CPROVER_assert(!neg || res->m_chars[0] == '-', "mini_format_int.postcondition.4: negatives start with '-'");
    __CPROVER_assert(GI1 >= FMT.k || res->m_chars[(neg ? 1 : 0) + GI1] == FMT.at, "mini_format_int.postcondition.5: the digits are exactly the formatter's text, in order");
}
static struct ST_format_spec mk_spec(void)
{
    struct ST_format_spec s;
    __CPROVER_assume((int)s.digit_class >= 0 && (int)s.digit_class <= (int)ST_digit_class_t_digit_char && (int)s.alignment >= 0 && (int)s.alignment <= (int)ST_alignment_t_align_right
                     && (int)s.float_class >= 0 && (int)s.float_class <= (int)ST_float_class_t_float_exp_upper);
    return s;
}
#ifdef STUB_stp_format_numeric_string
void stp_format_numeric_string(const struct ST_format_spec *format, struct ST_format_writer *output, const char *text, unsigned long size, stp_numeric_type ntype)
{ FNS.calls++; FNS.text = text; FNS.size = size; FNS.ntype = (int)ntype; }
#endif
static void post_fnum(const struct ST_format_spec *spec, _Bool neg, _Bool zero, unsigned long long mag)
{
    int radix = (spec->digit_class == ST_digit_class_t_digit_hex || spec->digit_class == ST_digit_class_t_digit_hex_upper) ? 16 : spec->digit_class == ST_digit_class_t_digit_oct ? 8 : spec->digit_class == ST_digit_class_t_digit_bin ? 2 : 10;
    __CPROVER_assert(ST_EXC == 0 && FMT.calls == 1 && FMT.value == mag, "format_numeric.postcondition.1: formats exactly the magnitude |value| (no undefined negation, most negative value included)");
    __CPROVER_assert(FMT.radix == radix && FMT.upper == (spec->digit_class == ST_digit_class_t_digit_hex_upper), "format_numeric.postcondition.2: radix and letter case follow the digit class (decimal by default)");
    __CPROVER_assert(FNS.calls == 1 && FNS.text == FMT.start && FNS.size == FMT.k, "format_numeric.postcondition.3: exactly the formatter's digits are handed to the field layout");
    __CPROVER_assert(FNS.ntype == (int)(zero ? numeric_zero : neg ? numeric_negative : numeric_positive), "format_numeric.postcondition.4: the sign class (zero / negative / positive) is that of the value");
}
