#include "/verif/harness/utf.c"
#include "/verif/harness/utf_gen.c"
