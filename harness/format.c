/* harness/format.c — contracts and proof harnesses of the format-string scanner, the specifier parser and the field layout
 * functions (C10, C11), mode B.  Format strings are NUL-terminated byte strings of symbolic, unbounded length and arbitrary bytes. */
#include "/verif/harness/format.h"
#include "/verif/harness/numeric.h"
#define A_DEF ST_alignment_t_align_default
#define A_LEFT ST_alignment_t_align_left
#define A_RIGHT ST_alignment_t_align_right
#define F_SAME 0
enum { M_ALIGN = 1, M_DIGIT = 2, M_FLOAT = 4, M_PAD = 8, M_SIGN = 16, M_PREFIX = 32, M_NUMPAD = 64, M_WIDTH = 128, M_PREC = 256, M_INDEX = 512 };
static _Bool spec_same_except(const struct ST_format_spec *o, const struct ST_format_spec *n, int mask)
{
    return ((mask & M_ALIGN) || o->alignment == n->alignment) && ((mask & M_DIGIT) || o->digit_class == n->digit_class) && ((mask & M_FLOAT) || o->float_class == n->float_class)
        && ((mask & M_PAD) || o->pad == n->pad) && ((mask & M_SIGN) || o->always_signed == n->always_signed) && ((mask & M_PREFIX) || o->class_prefix == n->class_prefix)
        && ((mask & M_NUMPAD) || o->numeric_pad == n->numeric_pad) && ((mask & M_WIDTH) || o->minimum_length == n->minimum_length) && ((mask & M_PREC) || o->precision == n->precision)
        && ((mask & M_INDEX) || o->arg_index == n->arg_index);
}
/* one iteration of parse_format that did not return: the character dispatched on is FB[km_old + 1] */
static void parse_step_check(const struct ST_format_spec *po, const struct ST_format_spec *pn, size_t km_old, size_t km)
{
    struct ST_format_spec o = *po, n = *pn;
    char c = FB[km_old + 1];
    _Bool ok;
    switch (c) {
    case '<': ok = n.alignment == A_LEFT && spec_same_except(&o, &n, M_ALIGN) && km == km_old + 1; break;
    case '>': ok = n.alignment == A_RIGHT && spec_same_except(&o, &n, M_ALIGN) && km == km_old + 1; break;
    case '_': ok = n.pad == FB[km_old + 2] && n.pad != 0 && !n.numeric_pad && spec_same_except(&o, &n, M_PAD | M_NUMPAD) && km == km_old + 2; break;
    case '0': ok = n.pad == '0' && n.numeric_pad && spec_same_except(&o, &n, M_PAD | M_NUMPAD) && km == km_old + 1; break;
    case '#': ok = n.class_prefix && spec_same_except(&o, &n, M_PREFIX) && km == km_old + 1; break;
    case '+': ok = n.always_signed && spec_same_except(&o, &n, M_SIGN) && km == km_old + 1; break;
    case 'x': ok = n.digit_class == ST_digit_class_t_digit_hex && spec_same_except(&o, &n, M_DIGIT) && km == km_old + 1; break;
    case 'X': ok = n.digit_class == ST_digit_class_t_digit_hex_upper && spec_same_except(&o, &n, M_DIGIT) && km == km_old + 1; break;
    case 'd': ok = n.digit_class == ST_digit_class_t_digit_dec && spec_same_except(&o, &n, M_DIGIT) && km == km_old + 1; break;
    case 'o': ok = n.digit_class == ST_digit_class_t_digit_oct && spec_same_except(&o, &n, M_DIGIT) && km == km_old + 1; break;
    case 'b': ok = n.digit_class == ST_digit_class_t_digit_bin && spec_same_except(&o, &n, M_DIGIT) && km == km_old + 1; break;
    case 'c': ok = n.digit_class == ST_digit_class_t_digit_char && spec_same_except(&o, &n, M_DIGIT) && km == km_old + 1; break;
    case 'f': ok = n.float_class == ST_float_class_t_float_fixed && spec_same_except(&o, &n, M_FLOAT) && km == km_old + 1; break;
    case 'e': ok = n.float_class == ST_float_class_t_float_exp && spec_same_except(&o, &n, M_FLOAT) && km == km_old + 1; break;
    case 'E': ok = n.float_class == ST_float_class_t_float_exp_upper && spec_same_except(&o, &n, M_FLOAT) && km == km_old + 1; break;
    case '1': case '2': case '3': case '4': case '5': case '6': case '7': case '8': case '9':
        ok = LC.calls >= 1 && LC.s == FB + km_old + 1 && LC.base == 10 && n.minimum_length == (int)(long)LC.sret && spec_same_except(&o, &n, M_WIDTH) && km + 1 == km_old + 1 + LC.endoff; break;
    case '.': ok = LC.calls >= 1 && LC.s == FB + km_old + 2 && LC.base == 10 && n.precision == (int)(long)LC.sret && spec_same_except(&o, &n, M_PREC) && km + 1 == km_old + 2 + LC.endoff; break;
    case '&': ok = LC.calls >= 1 && LC.s == FB + km_old + 2 && LC.base == 10 && n.arg_index == (int)(long)LC.sret && spec_same_except(&o, &n, M_INDEX) && km + 1 == km_old + 2 + LC.endoff; break;
    default: ok = 0;
    }
    __CPROVER_assert(ok, "ST_format_writer_parse_format.step.1: each specifier character sets exactly its own field (alignment < >, pad _c, zero pad 0, prefix #, sign +, class x X d o b c, float f e E, width digits, .precision, &index as decimal numbers) and consumes exactly its own characters");
}

/* a NUL-terminated format string of symbolic length and arbitrary bytes; the scanner starts at an arbitrary offset inside it */
static struct ST_format_writer mk_writer(void)
{
    size_t n = nondet_size_t(); __CPROVER_assume(n < ST_MAXN);
    char *f = malloc(n + 1); __CPROVER_assume(f != NULL); f[n] = 0;
    FB = f; FLEN = n; LC_BASE = f; LC_STRLEN = n;
    size_t k = nondet_size_t(); __CPROVER_assume(k <= n);
    struct ST_format_writer w; w.m_format_str = f + k; K0 = k; NEXT_SRC = k;
    OUT.len = nondet_size_t(); __CPROVER_assume(OUT.len < ST_MAXN); OUT_LEN0 = OUT.len;
    return w;
}
void h_fetch_prefix(void)
{
    fmt_ghosts(); struct ST_format_writer w = mk_writer();
    _Bool via_next = nondet_bool(); char r; _Bool nf = 0;
    if (via_next) { nf = ST_format_writer_next_format(&w); r = *w.m_format_str; } else r = ST_format_writer_fetch_prefix(&w);
    size_t stop = (size_t)__CPROVER_POINTER_OFFSET(w.m_format_str);
    __CPROVER_assert(ST_EXC == 0, "ST_format_writer_fetch_prefix.postcondition.1: scanning literal text never fails");
    __CPROVER_assert(__CPROVER_same_object(w.m_format_str, FB) && stop >= K0 && stop <= FLEN, "ST_format_writer_fetch_prefix.postcondition.2: the cursor stays inside the format string and never moves backwards");
    __CPROVER_assert(r == *w.m_format_str && (r == 0 || (r == '{' && FB[stop + 1] != '{')), "ST_format_writer_fetch_prefix.postcondition.3: stops at the terminator or at the opening brace of a field (not of an escaped brace)");
    __CPROVER_assert(!via_next || nf == (r == '{'), "ST_format_writer_next_format.postcondition.1: reports a field exactly when the scan stopped at one");
    __CPROVER_assert(NEXT_SRC == stop, "ST_format_writer_fetch_prefix.postcondition.4: every literal byte before the stop position has been emitted, in order, except the second brace of each doubled brace");
    __CPROVER_assert(!OUT.hit || (OUT.src >= K0 && OUT.src < stop && OUT.at == FB[OUT.src]), "ST_format_writer_fetch_prefix.postcondition.5: every byte emitted is the literal byte at its source position (copied verbatim)");
    __CPROVER_assert(OUT.len - OUT_LEN0 <= stop - K0, "ST_format_writer_fetch_prefix.postcondition.6: no byte is emitted twice");
}
void h_parse_format(void)
{
    fmt_ghosts(); struct ST_format_writer w = mk_writer();
    __CPROVER_assume(*w.m_format_str == '{');           /* precondition: established by next_format (postcondition.3 above) */
    struct ST_format_spec spec;
    ST_format_writer_parse_format(&spec, &w);
    size_t stop = (size_t)__CPROVER_POINTER_OFFSET(w.m_format_str);
    __CPROVER_assert(ST_EXC == 0 || ST_EXC == EXC_ST_bad_format, "ST_format_writer_parse_format.postcondition.1: a malformed or unterminated specifier raises bad_format and nothing else");
    __CPROVER_assert(__CPROVER_same_object(w.m_format_str, FB) && stop <= FLEN, "ST_format_writer_parse_format.postcondition.2: the cursor never passes the terminating NUL");
    __CPROVER_assert(ST_EXC != 0 || (stop > K0 + 1 && FB[stop - 1] == '}'), "ST_format_writer_parse_format.postcondition.3: on success the cursor is just past the closing brace");
    __CPROVER_assert(ST_EXC != 0 || SPEC_RANGES(spec), "ST_format_writer_parse_format.postcondition.4: the specification holds valid enumerators");
    __CPROVER_assert(OUT.calls == 0, "ST_format_writer_parse_format.postcondition.5: parsing a specifier emits nothing");
}
/* the default specification (no flags) */
void h_spec_default(void)
{
    struct ST_format_spec s; ST_format_spec_ctor__v(&s);
    __CPROVER_assert(s.minimum_length == 0 && s.precision == -1 && s.arg_index == -1 && s.alignment == A_DEF && s.digit_class == ST_digit_class_t_digit_default && s.float_class == ST_float_class_t_float_default
                     && s.pad == 0 && !s.always_signed && !s.class_prefix && !s.numeric_pad, "ST_format_spec_ctor.postcondition.1: an empty specifier means no width, no precision, next argument, default alignment and classes, no pad, no flags");
}

/* ============================================================ field layout (C11): loop-free, all widths / sizes / flags symbolic */
static struct ST_format_spec mk_spec(void)
{
    struct ST_format_spec s; __CPROVER_assume(SPEC_RANGES(s));
    return s;
}
#ifdef FMT_LAYOUT
/* format_string: text cut to the precision, then padded to the minimum width on the side given by the alignment (default: left for text) */
void h_format_string(void)
{
    fmt_ghosts(); struct ST_format_spec spec = mk_spec(); struct ST_format_writer w;
    size_t size = nondet_size_t(); __CPROVER_assume(size <= 0x7fffffff);     /* sizes above INT_MAX are outside the claim (the width comparison is done in int) */
    char *text = malloc(size); __CPROVER_assume(text != NULL || size == 0);
    int da = nondet_int(); __CPROVER_assume(da == A_LEFT || da == A_RIGHT);
    ST_format_string__rformat_spec_rformat_writer_pc_sz_alignment_t(&spec, &w, text, size, (ST_alignment_t)da);
    size_t nat = (spec.precision >= 0 && size > (size_t)spec.precision) ? (size_t)spec.precision : size;
    size_t width = spec.minimum_length > 0 ? (size_t)spec.minimum_length : 0;
    size_t total = width > nat ? width : nat;
    char pad = spec.pad ? spec.pad : ' ';
    _Bool right = (spec.alignment == A_DEF ? da : (int)spec.alignment) == A_RIGHT;
    __CPROVER_assert(ST_EXC == 0 && OUT.len == total, "ST_format_string.postcondition.1: the field is the text cut to the precision, extended (never truncated) to the minimum width");
    if (OUT.P < total) {
        size_t padn = total - nat;
        char want = right ? (OUT.P < padn ? pad : text[OUT.P - padn]) : (OUT.P < nat ? text[OUT.P] : pad);
        __CPROVER_assert(OUT.hit && OUT.at == want, "ST_format_string.postcondition.2: text bytes verbatim, pad characters on the side given by the alignment (text left by default)");
    }
}
/* format_numeric_string: [pad] sign prefix [zeros] digits [pad] */
void h_format_numeric_string(void)
{
    fmt_ghosts(); struct ST_format_spec spec = mk_spec(); struct ST_format_writer w;
    size_t size = nondet_size_t(); __CPROVER_assume(size >= 1 && size <= 64);    /* digit strings come from uint_formatter: 1..64 characters */
    char text[64]; int nt = nondet_int(); __CPROVER_assume(nt >= 0 && nt <= 2);
    stp_format_numeric_string(&spec, &w, text, size, (stp_numeric_type)nt);
    _Bool neg = nt == numeric_negative, zero = nt == numeric_zero;
    size_t signn = (neg || spec.always_signed) ? 1 : 0; char signc = neg ? '-' : '+';
    const char *pfx = ""; size_t pfxn = 0;
    if (!zero && spec.class_prefix) {
        if (spec.digit_class == ST_digit_class_t_digit_hex) { pfx = "0x"; pfxn = 2; } else if (spec.digit_class == ST_digit_class_t_digit_hex_upper) { pfx = "0X"; pfxn = 2; }
        else if (spec.digit_class == ST_digit_class_t_digit_bin) { pfx = "0b"; pfxn = 2; } else if (spec.digit_class == ST_digit_class_t_digit_oct) { pfx = "0"; pfxn = 1; }
    }
    size_t nat = signn + pfxn + size;
    size_t width = spec.minimum_length > 0 ? (size_t)spec.minimum_length : 0;
    size_t total = width > nat ? width : nat, padn = total - nat;
    char pad = spec.pad ? spec.pad : ' ';
    __CPROVER_assert(ST_EXC == 0 && OUT.len == total, "stp_format_numeric_string.postcondition.1: sign, prefix (none for zero) and digits, extended (never truncated) to the minimum width");
    if (OUT.P < total) {
        size_t p = OUT.P; char want;
        /* three layouts: numeric (zero) padding: sign prefix PAD digits; right (default): PAD sign prefix digits; left: sign prefix digits PAD */
        _Bool leftal = !spec.numeric_pad && spec.alignment == A_LEFT;
        size_t pad_at = spec.numeric_pad ? signn + pfxn : leftal ? nat : 0;       /* where the run of pad characters starts */
        if (p >= pad_at && p < pad_at + padn) want = pad;
        else {
            size_t q = p < pad_at ? p : p - padn;                                   /* position within sign|prefix|digits */
            want = q < signn ? signc : q < signn + pfxn ? pfx[q - signn] : text[q - signn - pfxn];
        }
        __CPROVER_assert(OUT.hit && OUT.at == want, "stp_format_numeric_string.postcondition.2: order is pad|sign|prefix|digits (right, default), sign|prefix|pad|digits (zero padding) or sign|prefix|digits|pad (left)");
    }
}
/* format_char: UTF-8 encoding of the code point, U+FFFD outside 0..10FFFF; padding on a character conversion is the documented assertion */
void h_format_char(void)
{
    fmt_ghosts(); struct ST_format_spec spec = mk_spec(); struct ST_format_writer w; int ch = nondet_int();
    GI0 = 0; GI1 = 1; GI2 = 2; GI3 = 3;      /* instantiation hints: the copy contract is needed at the four positions of the local UTF-8 buffer */
    __CPROVER_assume(spec.minimum_length == 0 && spec.pad == 0);       /* the documented contract assertion (C10): padding on a character conversion */
    stp_format_char(&spec, &w, ch);
    uint32_t c = (uint32_t)ch; _Bool bad = c > 0x10FFFF;
    size_t n = bad ? 3 : LEN8(c);
    __CPROVER_assert(ST_EXC == 0 && OUT.len == n, "stp_format_char.postcondition.1: a character renders as the UTF-8 encoding of its code point (3-byte U+FFFD if the value is not in 0..10FFFF, negative values included)");
    if (OUT.P < n) __CPROVER_assert(OUT.hit && (unsigned char)OUT.at == (bad ? (OUT.P == 0 ? 0xEF : OUT.P == 1 ? 0xBF : 0xBD) : ENC8(c, OUT.P)), "stp_format_char.postcondition.2: every byte is the standard UTF-8 byte");
}
#endif
