/* harness/strpriv.c — contracts and proof harnesses for the leaf compare / search functions (C06, C07), mode B. */

static void sp_ghosts(void) { GI0 = nondet_size_t(); GI1 = nondet_size_t(); GI2 = nondet_size_t(); TRC_HIT = 0; CI_HIT = 0; TRC_CALLS = 0; TRC_CI = 0; TRC_PROBE = NULL; TRF_PROBE = NULL; CI_PROBE = NULL; }
static char *mk_bytes(size_t n) { char *p = malloc(n); __CPROVER_assume(p != NULL); return p; }

#include "/verif/harness/leaf_stubs.h"

/* ---- fold functions: all 256 values ---- */
void h_cl_fast(void)
{
    char c = (char)nondet_uchar();
    __CPROVER_assert(stp_cl_fast_lower(c) == FOLD(c), "stp_cl_fast_lower.postcondition.1: folds exactly A-Z to a-z");
    __CPROVER_assert(stp_cl_fast_upper(c) == UNFOLD(c), "stp_cl_fast_upper.postcondition.1: maps exactly a-z to A-Z");
}
/* ---- buffer<char>::compare(l, ls, r, rs): composition over the char_traits::compare contract ---- */
#define CMP_HARNESS(NAME, CALL, DESCR) \
void NAME(void) \
{ \
    sp_ghosts(); \
    size_t ls = nondet_size_t(), rs = nondet_size_t(); __CPROVER_assume(ls < ST_MAXN && rs < ST_MAXN); \
    char *l = mk_bytes(ls), *r = mk_bytes(rs); \
    size_t mn = ls < rs ? ls : rs; \
    int ret = CALL; \
    __CPROVER_assert(TRC_A == l && TRC_B == r && TRC_N == mn, DESCR ".postcondition.1: the common prefix of both operands is compared element-wise"); \
    __CPROVER_assert(TRC_R == 0 || SIGN(ret) == SIGN(TRC_R), DESCR ".postcondition.2: the first differing element decides"); \
    __CPROVER_assert(TRC_R != 0 || SIGN(ret) == (ls < rs ? -1 : ls > rs ? 1 : 0), DESCR ".postcondition.3: with equal common prefix the shorter operand sorts first, equal lengths compare equal (for operands of any length)"); \
}
CMP_HARNESS(h_buffer_compare, ST_buffer_char_compare__pc_sz_pc_sz(l, ls, r, rs), "ST_buffer_char_compare")
CMP_HARNESS(h_compare_cs4, stp_compare_cs__pc_sz_pc_sz(l, ls, r, rs), "stp_compare_cs4")
void h_buffer_compare_n(void)
{
    sp_ghosts();
    size_t ls = nondet_size_t(), rs = nondet_size_t(), mx = nondet_size_t(); __CPROVER_assume(ls < ST_MAXN && rs < ST_MAXN);
    char *l = mk_bytes(ls), *r = mk_bytes(rs);
    size_t le = ls < mx ? ls : mx, re = rs < mx ? rs : mx, mn = le < re ? le : re;
    int ret = nondet_bool() ? ST_buffer_char_compare__pc_sz_pc_sz_sz(l, ls, r, rs, mx) : stp_compare_cs__pc_sz_pc_sz_sz(l, ls, r, rs, mx);
    __CPROVER_assert(TRC_A == l && TRC_B == r && TRC_N == mn, "ST_buffer_char_compare_n.postcondition.1: compares the first min(size, n) elements of each operand");
    __CPROVER_assert(TRC_R == 0 || SIGN(ret) == SIGN(TRC_R), "ST_buffer_char_compare_n.postcondition.2: the first differing element decides");
    __CPROVER_assert(TRC_R != 0 || SIGN(ret) == (le < re ? -1 : le > re ? 1 : 0), "ST_buffer_char_compare_n.postcondition.3: then the clipped lengths decide");
}
/* ---- compare_ci(l, r, n): real loop ---- */
void h_compare_ci3(void)
{
    sp_ghosts();
    size_t n = nondet_size_t(); __CPROVER_assume(n < ST_MAXN);
    char *l = mk_bytes(n), *r = mk_bytes(n);
    int ret = stp_compare_ci__pc_pc_sz(l, r, n);
    __CPROVER_assert(!(ret == 0 && GI0 < n) || FOLD(l[GI0]) == FOLD(r[GI0]), "stp_compare_ci.postcondition.1: zero implies every position is equal after folding ASCII case");
    __CPROVER_assert(ret == 0 || (CI_D < n && FOLD(l[CI_D]) != FOLD(r[CI_D]) && SIGN(ret) == SIGN((int)FOLD(l[CI_D]) - (int)FOLD(r[CI_D]))), "stp_compare_ci.postcondition.2: non-zero is the sign of the first fold-difference");
    __CPROVER_assert(ret == 0 || !(GI0 < CI_D) || FOLD(l[GI0]) == FOLD(r[GI0]), "stp_compare_ci.postcondition.3: everything before the deciding position is fold-equal");
}
#ifdef STUB_stp_compare_ci__pc_pc_sz
CMP_HARNESS(h_compare_ci4, stp_compare_ci__pc_sz_pc_sz(l, ls, r, rs), "stp_compare_ci4")
void h_compare_ci5(void)
{
    sp_ghosts();
    size_t ls = nondet_size_t(), rs = nondet_size_t(), mx = nondet_size_t(); __CPROVER_assume(ls < ST_MAXN && rs < ST_MAXN);
    char *l = mk_bytes(ls), *r = mk_bytes(rs);
    size_t le = ls < mx ? ls : mx, re = rs < mx ? rs : mx, mn = le < re ? le : re;
    int ret = stp_compare_ci__pc_sz_pc_sz_sz(l, ls, r, rs, mx);
    __CPROVER_assert(TRC_A == l && TRC_B == r && TRC_N == mn, "stp_compare_ci5.postcondition.1: compares the first min(size, n) elements of each operand");
    __CPROVER_assert(TRC_R == 0 || SIGN(ret) == SIGN(TRC_R), "stp_compare_ci5.postcondition.2: the first fold-difference decides");
    __CPROVER_assert(TRC_R != 0 || SIGN(ret) == (le < re ? -1 : le > re ? 1 : 0), "stp_compare_ci5.postcondition.3: then the clipped lengths decide");
}
#endif
/* ---- find_ci(h, n, ch): real loop ---- */
void h_find_ci_char(void)
{
    sp_ghosts();
    size_t n = nondet_size_t(); __CPROVER_assume(n < ST_MAXN);
    char *h = mk_bytes(n); char ch = (char)nondet_uchar();
    const char *ret = stp_find_ci__pc_sz_c(h, n, ch);
    __CPROVER_assert(ret == NULL || (ret >= h && ret < h + n && FOLD(*ret) == FOLD(ch)), "stp_find_ci_char.postcondition.1: a result lies inside the haystack and matches modulo ASCII case");
    __CPROVER_assert(!(GI0 < n && (ret == NULL || GI0 < (size_t)(ret - h))) || FOLD(h[GI0]) != FOLD(ch), "stp_find_ci_char.postcondition.2: no earlier position matches (first occurrence), none at all when NULL");
    const char *r2 = stp_find_cs__pc_sz_c(h, n, ch);
    __CPROVER_assert(r2 == NULL || (r2 >= h && r2 < h + n && *r2 == ch), "stp_find_cs_char.postcondition.1: case-sensitive single-character search returns a position holding the character");
}
/* ---- needle search: first occurrence (witness ghosts, no quantifier) ---- */
#define NEEDLE_HARNESS(NAME, CALL, EQ, HIT, WIT, PROBE, DESCR) \
void NAME(void) \
{ \
    sp_ghosts(); \
    size_t n = nondet_size_t(), k = nondet_size_t(); __CPROVER_assume(n < ST_MAXN && k >= 1 && k < ST_MAXN); \
    char *h = mk_bytes(n), *nd = mk_bytes(k); \
    __CPROVER_assume(GI0 < n); PROBE = h + GI0; TRF_PROBE = h + GI0; GI1 = nondet_size_t(); \
    const char *ret = CALL; \
    __CPROVER_assert(ret == NULL || (ret >= h && k <= n && (size_t)(ret - h) <= n - k), DESCR ".postcondition.1: a result lies inside the haystack with room for the whole needle"); \
    __CPROVER_assert(!(ret != NULL && GI1 < k) || EQ(ret[GI1], nd[GI1]), DESCR ".postcondition.2: the needle occurs at the returned position"); \
    __CPROVER_assert(!((ret == NULL || GI0 < (size_t)(ret - h)) && k <= n && GI0 <= n - k) || (!EQ(h[GI0], nd[0]) || (HIT && WIT < k && !EQ(h[GI0 + WIT], nd[WIT]))), DESCR ".postcondition.3: the needle does not occur at any earlier position (first occurrence), nowhere when NULL"); \
}
#define EQ_CS(a, b) ((a) == (b))
#define EQ_CI(a, b) (FOLD(a) == FOLD(b))
NEEDLE_HARNESS(h_find_cs_needle, stp_find_cs__pc_sz_pc_sz(h, n, nd, k), EQ_CS, TRC_HIT, TRC_WIT, TRC_PROBE, "stp_find_cs_needle")
#if defined(STUB_stp_compare_ci__pc_pc_sz) && defined(STUB_stp_find_ci__pc_sz_c)
NEEDLE_HARNESS(h_find_ci_needle, stp_find_ci__pc_sz_pc_sz(h, n, nd, k), EQ_CI, CI_HIT, CI_WIT, CI_PROBE, "stp_find_ci_needle")
#endif
