/* harness/string_split_bounded.c — BOUNDED whole-function checks of ST::string::replace (C09): real extracted code down to the
 * leaf search loops (find_cs / find_ci / compare_cs / compare_ci), char_traits as plain loops (prelude.h TR_CONCRETE), real
 * initial states, every loop unwound.  Bound: text <= RB_S bytes, pattern <= RB_F, replacement <= RB_T.  The oracle is a
 * reference implementation written from the property text (leftmost non-overlapping occurrences, left to right).
 * Stand-in / cross-check for the unbounded contracts of harness/string_split.c; never counted as proved.                      */
#include "/verif/harness/utf_stubs.h"
#ifndef RB_S
#define RB_S 5
#define RB_F 2
#define RB_T 3
#endif
#define CS  ST_case_sensitivity_t_case_sensitive
#define CI_ ST_case_sensitivity_t_case_insensitive
static char rb_fold(char c) { return (c >= 'A' && c <= 'Z') ? (char)(c + 32) : c; }
static _Bool rb_match(const char *s, size_t n, size_t at, const char *f, size_t fn, _Bool ci)
{
    if (fn > n || at > n - fn) return 0;
    for (size_t i = 0; i < fn; i++) { char a = s[at + i], b = f[i]; if (ci ? rb_fold(a) != rb_fold(b) : a != b) return 0; }
    return 1;
}
static void rb_str(struct ST_string *s, const char *bytes, size_t n)
{
    s->m_buffer.m_size = n; s->m_buffer.m_chars = s->m_buffer.m_data;
    { struct ST_buffer_char zero = {0}; s->m_buffer = zero; s->m_buffer.m_size = n; s->m_buffer.m_chars = s->m_buffer.m_data; }
    for (size_t i = 0; i < RB_S + 1; i++) if (i < n) s->m_buffer.m_data[i] = bytes[i];
}
#ifndef RB_SPLIT
void hb_str_replace(void)
{
    ST_EXC = 0; ST_LIVE = 0; ST_FAULT = 0;
    char R_s[RB_S], R_f[RB_F], R_t[RB_T]; size_t R_sn = nondet_size_t(), R_fn = nondet_size_t(), R_tn = nondet_size_t(); _Bool R_ci = nondet_bool();
    __CPROVER_assume(R_sn <= RB_S && R_fn <= RB_F && R_tn <= RB_T);
#ifdef RB_CI
    __CPROVER_assume(R_ci == RB_CI);
#endif
    struct ST_string s, from, to, res; rb_str(&s, R_s, R_sn); rb_str(&from, R_f, R_fn); rb_str(&to, R_t, R_tn);
    /* reference: scan left to right; at each position, if the pattern occurs there emit the replacement and skip it, else emit the byte */
    char exp[RB_S * RB_T + RB_S + 1]; size_t en = 0, i = 0;
    while (i < R_sn) {
        if (R_fn != 0 && rb_match(R_s, R_sn, i, R_f, R_fn, R_ci)) { for (size_t j = 0; j < R_tn; j++) exp[en++] = R_t[j]; i += R_fn; }
        else exp[en++] = R_s[i++];
    }
    ST_string_replace__rstring_rstring_case_sensitivity_t_k(&res, &s, &from, &to, R_ci ? CI_ : CS);
    if (ST_EXC == EXC_ST_unicode_error) return;       /* the assembled bytes were rejected as UTF-8 (validator is a contract stub here) */
    __CPROVER_assert(ST_EXC == 0, "ST_string_replace.bounded.1: no exception");
    __CPROVER_assert(res.m_buffer.m_size == en, "ST_string_replace.bounded.2: result length is size + k*(|to| - |from|) for the k leftmost non-overlapping occurrences");
    _Bool same = 1;
    for (size_t k = 0; k < sizeof(exp) - 1; k++) if (k < en && k < res.m_buffer.m_size && res.m_buffer.m_chars[k] != exp[k]) same = 0;
    __CPROVER_assert(same, "ST_string_replace.bounded.3: every occurrence is replaced, nothing else is changed");
    __CPROVER_assert(res.m_buffer.m_chars[res.m_buffer.m_size] == 0, "ST_string_replace.bounded.4: the result is NUL-terminated");
    __CPROVER_assert(ST_LIVE == (res.m_buffer.m_size >= 16 ? 1 : 0), "ST_string_replace.bounded.5: nothing leaked");
    for (size_t k = 0; k < RB_S; k++) __CPROVER_assert(k >= R_sn || s.m_buffer.m_data[k] == R_s[k], "ST_string_replace.bounded.6: the text is not modified");
}
#endif

/* ---- split / tokenize, bounded: the external vector is a concrete log of pieces ---- */
#ifdef RB_SPLIT
#define VB_MAX (RB_S + 2)
size_t VB_LEN[VB_MAX]; char VB_BYTES[VB_MAX][RB_S + 1]; _Bool VB_OVER;
void std_vector_ST_string_ctor__v(struct std_vector_ST_string *self) { self->count = 0; self->owned = 0; }
void std_vector_ST_string_ctor__xvector(struct std_vector_ST_string *self, struct std_vector_ST_string *a0) { *self = *a0; a0->count = 0; a0->owned = 0; }
void std_vector_ST_string_dtor(struct std_vector_ST_string *self) { ST_LIVE -= self->owned; self->owned = 0; self->count = 0; }
void std_vector_ST_string_push(struct std_vector_ST_string *self, struct ST_string *a0)
{
    size_t n = a0->m_buffer.m_size;
    if (self->count >= VB_MAX || n > RB_S) VB_OVER = 1;
    else { VB_LEN[self->count] = n; for (size_t i = 0; i < RB_S; i++) if (i < n) VB_BYTES[self->count][i] = a0->m_buffer.m_chars[i]; }
    self->count++;
    if (n >= 16) self->owned++;
    a0->m_buffer.m_size = 0; a0->m_buffer.m_chars = a0->m_buffer.m_data; a0->m_buffer.m_data[0] = 0;
}
static _Bool rb_in(const char *set, size_t n, char c) { for (size_t i = 0; i < n; i++) if (set[i] == c) return 1; return 0; }
static void rb_expect_piece(size_t idx, const char *s, size_t from, size_t to, const char *what)
{
    __CPROVER_assert(idx < VB_MAX && VB_LEN[idx] == to - from, "ST_string_split.bounded.2: each piece has the length of the text between two cuts");
    for (size_t i = 0; i < RB_S; i++) if (idx < VB_MAX && from + i < to) __CPROVER_assert(VB_BYTES[idx][i] == s[from + i], "ST_string_split.bounded.3: each piece holds the bytes of the text between two cuts");
}
void hb_str_split(void)
{
    ST_EXC = 0; ST_LIVE = 0; ST_FAULT = 0; VB_OVER = 0;
    char R_s[RB_S], R_f[RB_F + 1]; size_t R_sn = nondet_size_t(), R_fn = nondet_size_t(), R_max = nondet_size_t(); _Bool R_ci = nondet_bool(); int R_form = nondet_int();
    __CPROVER_assume(R_sn <= RB_S && R_fn <= RB_F && R_form >= 0 && R_form <= 2);
#ifdef RB_FORM
    __CPROVER_assume(R_form == RB_FORM);
#endif
    for (size_t i = 0; i < RB_F; i++) if (i < R_fn) __CPROVER_assume(R_f[i] != 0);      /* a C-string separator has no NUL before its end */
    R_f[R_fn] = 0;
    if (R_form == 2) __CPROVER_assume(R_fn == 1 && (unsigned char)R_f[0] < 0x80);       /* split(char): documented precondition */
    struct ST_string s, sep; rb_str(&s, R_s, R_sn); rb_str(&sep, R_f, R_fn);
    struct std_vector_ST_string res;
    if (R_form == 0) ST_string_split__rstring_sz_case_sensitivity_t_k(&res, &s, &sep, R_max, R_ci ? CI_ : CS);
    else if (R_form == 1) ST_string_split__pc_sz_case_sensitivity_t_k(&res, &s, R_f, R_max, R_ci ? CI_ : CS);
    else ST_string_split__c_sz_case_sensitivity_t_k(&res, &s, R_f[0], R_max, R_ci ? CI_ : CS);
    if (ST_EXC == EXC_ST_unicode_error) return;       /* split(const char *) re-validates pieces when the separator has bytes >= 0x80 (validator is a contract stub) */
    __CPROVER_assert(ST_EXC == 0 && !VB_OVER, "ST_string_split.bounded.1: no exception, at most size+1 pieces");
    /* reference: cut at the first R_max non-overlapping occurrences found left to right; an empty separator leaves the text whole */
    size_t idx = 0, from = 0, i = 0, cuts = 0;
    while (R_fn != 0 && cuts < R_max && i < R_sn) {
        if (rb_match(R_s, R_sn, i, R_f, R_fn, R_ci)) { rb_expect_piece(idx, R_s, from, i, "piece"); idx++; cuts++; i += R_fn; from = i; }
        else i++;
    }
    rb_expect_piece(idx, R_s, from, R_sn, "last piece"); idx++;
    __CPROVER_assert(res.count == idx, "ST_string_split.bounded.4: the number of pieces is the number of cuts + 1 (at most max + 1)");
}
void hb_str_tokenize(void)
{
    ST_EXC = 0; ST_LIVE = 0; ST_FAULT = 0; VB_OVER = 0;
    char R_s[RB_S], R_f[RB_F + 1]; size_t R_sn = nondet_size_t(), R_fn = nondet_size_t();
    __CPROVER_assume(R_sn <= RB_S && R_fn <= RB_F);
    for (size_t i = 0; i < RB_F; i++) if (i < R_fn) __CPROVER_assume(R_f[i] != 0);
    R_f[R_fn] = 0;
    struct ST_string s; rb_str(&s, R_s, R_sn);
    struct std_vector_ST_string res;
    ST_string_tokenize(&res, &s, R_f);
    __CPROVER_assert(ST_EXC == 0 && !VB_OVER, "ST_string_tokenize.bounded.1: no exception");
    /* reference: the maximal non-empty runs of bytes not in the delimiter set, in order */
    size_t idx = 0, i = 0;
    while (i < R_sn) {
        if (rb_in(R_f, R_fn, R_s[i])) { i++; continue; }
        size_t j = i; while (j < R_sn && !rb_in(R_f, R_fn, R_s[j])) j++;
        rb_expect_piece(idx, R_s, i, j, "token"); idx++; i = j;
    }
    __CPROVER_assert(res.count == idx, "ST_string_tokenize.bounded.2: exactly the maximal non-empty runs of non-delimiter bytes are returned");
}
#endif
