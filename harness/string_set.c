/* harness/string_set.c — C18: a failed operation leaves its target and its arguments unchanged (and leaks nothing); mode B.
 * Real extracted code: string::set(const char_buffer&, v), set(char_buffer&&, v), _set_utf8, operator+=(const string&),
 * operator+=(char32_t), operator+(string, char32_t), operator+(char32_t, string), operator+(string, string), raise_conversion_error,
 * write_utf8 / utf8_measure, and the buffer operations they use (allocate, copy / move assignment, destructor: C05).
 * Contract stubs: validate_utf8 (harness/utf_stubs.h; proved in the UTF unit), cleanup_utf8_buffer (returns a fresh well-formed
 * buffer; proved in the UTF unit), char_traits copy/move (prelude.h).  ST_FAULT = 0: allocation failure is C19's subject.          */
#include "/verif/harness/string_common.h"
#include "/verif/harness/utf_stubs.h"
#define BUF_WF(b) ((b)->m_size < ST_MAXN && ((b)->m_size < SL ? (b)->m_chars == (b)->m_data : (__CPROVER_DYNAMIC_OBJECT((b)->m_chars) && __CPROVER_OBJECT_SIZE((b)->m_chars) == (b)->m_size + 1 && __CPROVER_POINTER_OFFSET((b)->m_chars) == 0)) && (b)->m_chars[(b)->m_size] == 0)
#define SNAP_BUF(b, p) size_t p##_n = (b)->m_size; const char *p##_c = (b)->m_chars; char p##_at = GI0 < p##_n ? p##_c[GI0] : 0
#define BUF_UNCHANGED(b, p) ((b)->m_size == p##_n && (b)->m_chars == p##_c && (GI0 >= p##_n || p##_c[GI0] == p##_at))
static void mk_buf(struct ST_buffer_char *b)
{
    size_t n = nondet_size_t(); __CPROVER_assume(n < ST_MAXN);
    b->m_size = n;
    if (n < SL) b->m_chars = b->m_data; else { b->m_chars = malloc(n + 1); __CPROVER_assume(b->m_chars != NULL); ST_LIVE++; }
    __CPROVER_assume(b->m_chars[n] == 0);
}
#ifdef STUB_stp_cleanup_utf8_buffer
struct { unsigned calls; const struct ST_buffer_char *arg; size_t n; char at; } CU;
void stp_cleanup_utf8_buffer(struct ST_buffer_char *__ret, const struct ST_buffer_char *buffer)
{
    __CPROVER_assert(BUF_WF(buffer), "cleanup_utf8_buffer.precondition: the argument is a well-formed buffer");
    CU.calls++; CU.arg = buffer;
    mk_buf(__ret);                                    /* some fresh well-formed buffer: the repaired text (C02) */
    CU.n = __ret->m_size; CU.at = GI0 < CU.n ? __ret->m_chars[GI0] : 0;
}
#endif
#ifndef SET_MODE
#define SET_MODE nondet_int()
#endif
static ST_utf_validation_t any_validation(void) { int k = SET_MODE; __CPROVER_assume(k >= 0 && k <= 2); return k == 0 ? ST_utf_validation_t_assume_valid : k == 1 ? ST_utf_validation_t_substitute_invalid : ST_utf_validation_t_check_validity; }
#define OWNS(n) ((n) >= SL ? 1 : 0)

/* ---- set(const char_buffer &, validation) / set(char_buffer &&, validation) ---- */
static void chk_set(const struct ST_string *t, size_t t0_n, const char *t0_c, char t0_at, struct ST_buffer_char *b, size_t b0_n, const char *b0_c, char b0_at, ST_utf_validation_t v, long live0, _Bool moved)
{
    if (ST_EXC != 0) {
        __CPROVER_assert(ST_EXC == EXC_ST_unicode_error && v == ST_utf_validation_t_check_validity && VU.calls == 1 && VU.ret != (int)stp_conversion_error_t_success, "ST_string_set.postcondition.1: the only exception is unicode_error, raised under check_validity when the validator rejects the bytes");
        __CPROVER_assert(STR_UNCHANGED(t, t0), "ST_string_set.postcondition.2: on failure the target still holds its previous value (validate, then commit)");
        __CPROVER_assert(BUF_UNCHANGED(b, b0), "ST_string_set.postcondition.3: on failure the argument (also when passed as an rvalue) still holds its value");
        __CPROVER_assert(ST_LIVE == live0, "ST_string_set.postcondition.4: on failure no storage is leaked or released");
    } else {
        __CPROVER_assert(v != ST_utf_validation_t_check_validity || (VU.calls == 1 && VU.buf == b0_c && VU.n == b0_n && VU.ret == (int)stp_conversion_error_t_success), "ST_string_set.postcondition.5: check_validity commits only what the validator accepted: exactly the argument's bytes");
        __CPROVER_assert(STR_WF(t), "ST_string_set.postcondition.6: the target is a well-formed string");
        if (v == ST_utf_validation_t_substitute_invalid) __CPROVER_assert(CU.calls == 1 && CU.arg == b && t->m_buffer.m_size == CU.n && (!(GI0 < CU.n) || t->m_buffer.m_chars[GI0] == CU.at), "ST_string_set.postcondition.7: substitute_invalid commits the repaired text of the argument");
        else __CPROVER_assert(t->m_buffer.m_size == b0_n && (!(GI0 < b0_n) || t->m_buffer.m_chars[GI0] == b0_at), "ST_string_set.postcondition.8: the target holds the argument's bytes");
        __CPROVER_assert(moved || BUF_UNCHANGED(b, b0), "ST_string_set.postcondition.9: an lvalue argument is not modified");
        __CPROVER_assert(!moved || BUF_WF(b), "ST_string_set.postcondition.10: an rvalue argument is left a well-formed buffer");
        __CPROVER_assert(ST_LIVE == live0 - OWNS(t0_n) - (moved ? OWNS(b0_n) : 0) + OWNS(t->m_buffer.m_size) + (moved ? OWNS(b->m_size) : 0), "ST_string_set.postcondition.11: heap blocks: the target's old block is released (or lives on in the moved-from argument), nothing leaked");
    }
}
#ifndef SET_HELPERS_ONLY
void h_str_set_copy(void)
{
    str_ghosts(); struct ST_string t; mk_str(&t); SNAP_STR(&t, t0); struct ST_buffer_char b; mk_buf(&b); SNAP_BUF(&b, b0); ST_utf_validation_t v = any_validation(); long live0 = ST_LIVE;
    GI1 = b0_n; GI2 = nondet_size_t(); VU.calls = 0; CU.calls = 0;      /* GI2: prophecy of the new size (terminator index), fixed after the call */
    ST_string_set__rbufferc_utf_validation_t(&t, &b, v);
    if (ST_EXC == 0) __CPROVER_assume(GI2 == t.m_buffer.m_size);
    chk_set(&t, t0_n, t0_c, t0_at, &b, b0_n, b0_c, b0_at, v, live0, 0);
}
void h_str_set_move(void)
{
    str_ghosts(); struct ST_string t; mk_str(&t); SNAP_STR(&t, t0); struct ST_buffer_char b; mk_buf(&b); SNAP_BUF(&b, b0); ST_utf_validation_t v = any_validation(); long live0 = ST_LIVE;
    GI1 = b0_n; GI2 = t0_n; GI3 = nondet_size_t(); VU.calls = 0; CU.calls = 0;      /* GI3: prophecy of the new size (terminator index), fixed after the call */
    ST_string_set__xbufferc_utf_validation_t(&t, &b, v);
    if (ST_EXC == 0) __CPROVER_assume(GI3 == t.m_buffer.m_size);
    chk_set(&t, t0_n, t0_c, t0_at, &b, b0_n, b0_c, b0_at, v, live0, v != ST_utf_validation_t_substitute_invalid);
}
/* ---- _set_utf8(const char *, size, validation): construct from / assign raw UTF-8 ---- */
void h_str_set_utf8(void)
{
    str_ghosts(); struct ST_string t; mk_str(&t); SNAP_STR(&t, t0); ST_utf_validation_t v = any_validation();
    size_t n = nondet_size_t(); __CPROVER_assume(n < ((size_t)1 << 28));
    char *src = nondet_bool() ? NULL : malloc(n); __CPROVER_assume(src != NULL || n == 0 || src == NULL);
    char s_at = (src != NULL && GI0 < n) ? src[GI0] : 0; long live0 = ST_LIVE;
    GI1 = n; GI2 = t0_n; GI3 = nondet_size_t(); VU.calls = 0; CU.calls = 0;
    ST_string__set_utf8__pc_sz_utf_validation_t(&t, src, n, v);
    if (ST_EXC == 0) __CPROVER_assume(GI3 == t.m_buffer.m_size);
    if (ST_EXC != 0) {
        __CPROVER_assert(ST_EXC == EXC_ST_unicode_error && v == ST_utf_validation_t_check_validity && src != NULL, "ST_string_set_utf8.postcondition.1: the only exception is unicode_error, under check_validity");
        __CPROVER_assert(STR_UNCHANGED(&t, t0), "ST_string_set_utf8.postcondition.2: on failure the target still holds its previous value");
        __CPROVER_assert(ST_LIVE == live0, "ST_string_set_utf8.postcondition.3: on failure the temporary buffer is released; nothing leaked");
    } else {
        __CPROVER_assert(STR_WF(&t), "ST_string_set_utf8.postcondition.4: the target is a well-formed string");
        __CPROVER_assert(v == ST_utf_validation_t_substitute_invalid && src != NULL || (t.m_buffer.m_size == (src ? n : 0) && (!(src != NULL && GI0 < n) || t.m_buffer.m_chars[GI0] == s_at)), "ST_string_set_utf8.postcondition.5: the target holds the given bytes (the empty string for a null pointer)");
        __CPROVER_assert(v != ST_utf_validation_t_check_validity || src == NULL || (VU.calls == 1 && VU.n == n && VU.ret == (int)stp_conversion_error_t_success), "ST_string_set_utf8.postcondition.6: check_validity validated all n bytes before committing");
        __CPROVER_assert(ST_LIVE == live0 - OWNS(t0_n) + OWNS(t.m_buffer.m_size), "ST_string_set_utf8.postcondition.7: the old block and the temporary are released; nothing leaked");
    }
}
/* ---- operator+(string, char32_t), operator+(char32_t, string), operator+=(char32_t), operator+=(const string &) ---- */
void h_str_add_c32(void)
{
    str_ghosts(); struct ST_string s; mk_str(&s); SNAP_STR(&s, s0); uint32_t ch = nondet_unsigned(); _Bool left = nondet_bool(); long live0 = ST_LIVE;
    __CPROVER_assume(s0_n < ST_MAXN - 8);
    size_t len = ch < 0x80 ? 1 : ch < 0x800 ? 2 : ch < 0x10000 ? 3 : 4;
    GI1 = s0_n + len; GI2 = len + GI0;
    struct ST_string res;
    if (left) ST_op_add__rstring_c32(&res, &s, ch); else ST_op_add__c32_rstring(&res, ch, &s);
    __CPROVER_assert((ST_EXC != 0) == (ch > 0x10FFFF) && (ST_EXC == 0 || ST_EXC == EXC_ST_unicode_error), "ST_op_add_c32.postcondition.1: unicode_error exactly for a value above U+10FFFF");
    if (ST_EXC != 0) __CPROVER_assert(ST_LIVE == live0, "ST_op_add_c32.postcondition.2: on failure the partly built result is released; nothing leaked");
    else {
        __CPROVER_assert(STR_WF(&res) && res.m_buffer.m_size == s0_n + len, "ST_op_add_c32.postcondition.3: the result is well formed and has the length of the text plus the UTF-8 length of the character");
        __CPROVER_assert(!(GI0 < s0_n) || res.m_buffer.m_chars[(left ? 0 : len) + GI0] == s0_at, "ST_op_add_c32.postcondition.4: the text is copied unchanged before / after the character");
        __CPROVER_assert(ST_LIVE == live0 + OWNS(res.m_buffer.m_size), "ST_op_add_c32.postcondition.5: exactly the result's block is allocated");
    }
    __CPROVER_assert(STR_UNCHANGED(&s, s0), "ST_op_add_c32.postcondition.6: the string argument is not modified");
}
void h_str_addeq_c32(void)
{
    str_ghosts(); struct ST_string s; mk_str(&s); SNAP_STR(&s, s0); uint32_t ch = nondet_unsigned(); long live0 = ST_LIVE;
    __CPROVER_assume(s0_n < ST_MAXN - 8);
    size_t len = ch < 0x80 ? 1 : ch < 0x800 ? 2 : ch < 0x10000 ? 3 : 4;
    GI1 = s0_n + len; GI2 = s0_n;
    ST_string_op_addeq__c32(&s, ch);
    __CPROVER_assert((ST_EXC != 0) == (ch > 0x10FFFF) && (ST_EXC == 0 || ST_EXC == EXC_ST_unicode_error), "ST_string_op_addeq_c32.postcondition.1: unicode_error exactly for a value above U+10FFFF");
    if (ST_EXC != 0) __CPROVER_assert(STR_UNCHANGED(&s, s0) && ST_LIVE == live0, "ST_string_op_addeq_c32.postcondition.2: on failure the string still holds its previous value; nothing leaked");
    else {
        __CPROVER_assert(STR_WF(&s) && s.m_buffer.m_size == s0_n + len && (!(GI0 < s0_n) || s.m_buffer.m_chars[GI0] == s0_at), "ST_string_op_addeq_c32.postcondition.3: the previous text followed by the character's UTF-8 form");
        __CPROVER_assert(ST_LIVE == live0 - OWNS(s0_n) + OWNS(s.m_buffer.m_size), "ST_string_op_addeq_c32.postcondition.4: the old block is released; nothing leaked");
    }
}
void h_str_addeq_string(void)
{
    str_ghosts(); struct ST_string s; mk_str(&s); SNAP_STR(&s, s0); struct ST_string o; mk_str(&o); SNAP_STR(&o, o0); long live0 = ST_LIVE;
    __CPROVER_assume(s0_n + o0_n < ST_MAXN);
    GI1 = s0_n + o0_n; GI2 = s0_n; GI3 = nondet_size_t();
    char o_at3 = GI3 < o0_n ? o0_c[GI3] : 0;
    ST_string_op_addeq__rstring(&s, &o);
    __CPROVER_assert(ST_EXC == 0, "ST_string_op_addeq_string.postcondition.1: appending a string never throws (no allocation fault injected)");
    __CPROVER_assert(STR_WF(&s) && s.m_buffer.m_size == s0_n + o0_n && (!(GI0 < s0_n) || s.m_buffer.m_chars[GI0] == s0_at), "ST_string_op_addeq_string.postcondition.2: the previous text is kept");
    __CPROVER_assert(STR_UNCHANGED(&o, o0), "ST_string_op_addeq_string.postcondition.3: the appended string is not modified");
    __CPROVER_assert(ST_LIVE == live0 - OWNS(s0_n) + OWNS(s.m_buffer.m_size), "ST_string_op_addeq_string.postcondition.4: the old block is released; nothing leaked");
}

/* ---- C19 at the string level: every allocation inside operator+ / += / set may fail (ST_FAULT: each st_new_char call decides independently) ---- */
#ifndef FAULT_OP
#define FAULT_OP 0
#endif
#define STR_EMPTY(t) ((t)->m_buffer.m_size == 0 && (t)->m_buffer.m_chars == (t)->m_buffer.m_data && (t)->m_buffer.m_data[0] == 0)
void h_str_fault(void)
{
    str_ghosts(); struct ST_string s; mk_str(&s); SNAP_STR(&s, s0); struct ST_string o; mk_str(&o); SNAP_STR(&o, o0);
    uint32_t ch = nondet_unsigned(); __CPROVER_assume(ch <= 0x10FFFF); size_t len = ch < 0x80 ? 1 : ch < 0x800 ? 2 : ch < 0x10000 ? 3 : 4;
    __CPROVER_assume(s0_n + o0_n < ST_MAXN - 8);
    long live0 = ST_LIVE; ST_FAULT = 1; VU.calls = 0; CU.calls = 0;
    struct ST_string res; _Bool has_res = 0; size_t newsize = 0;
    GI2 = s0_n; GI3 = nondet_size_t();
    if (FAULT_OP == 0) { GI1 = s0_n + len; ST_op_add__rstring_c32(&res, &s, ch); has_res = 1; newsize = s0_n + len; }
    else if (FAULT_OP == 1) { GI1 = s0_n + o0_n; ST_op_add__rstring_rstring(&res, &s, &o); has_res = 1; newsize = s0_n + o0_n; }
    else if (FAULT_OP == 2) { GI1 = s0_n + len; ST_string_op_addeq__c32(&s, ch); newsize = s0_n + len; }
    else if (FAULT_OP == 3) { GI1 = s0_n + o0_n; ST_string_op_addeq__rstring(&s, &o); newsize = s0_n + o0_n; }
    else { GI1 = o0_n; ST_string_set__rbufferc_utf_validation_t(&s, &o.m_buffer, ST_utf_validation_t_assume_valid); newsize = o0_n; }
    __CPROVER_assert(ST_EXC == 0 || ST_EXC == EXC_std_bad_alloc, "ST_string_fault.postcondition.1: the only exception is bad_alloc, which reaches the caller");
    if (ST_EXC == EXC_std_bad_alloc) {
        if (FAULT_OP <= 3) __CPROVER_assert(STR_UNCHANGED(&s, s0), "ST_string_fault.postcondition.2: after a failed allocation the target / left operand still holds its previous value");
        else __CPROVER_assert(STR_WF(&s) && (STR_UNCHANGED(&s, s0) || STR_EMPTY(&s)), "ST_string_fault.postcondition.2: after a failed allocation the target holds its previous value or the empty value, never released storage");
        __CPROVER_assert(STR_UNCHANGED(&o, o0), "ST_string_fault.postcondition.3: the argument is unchanged");
        __CPROVER_assert(ST_LIVE == live0 - (FAULT_OP == 4 && !STR_UNCHANGED(&s, s0) ? OWNS(s0_n) : 0), "ST_string_fault.postcondition.4: nothing is leaked or released twice (partly built results are released)");
    } else {
        const struct ST_string *r = has_res ? &res : &s;
        __CPROVER_assert(STR_WF(r) && r->m_buffer.m_size == newsize, "ST_string_fault.postcondition.5: without a failure the result is well formed and has the expected length");
        __CPROVER_assert(ST_LIVE == live0 + OWNS(newsize) - (has_res ? 0 : OWNS(s0_n)), "ST_string_fault.postcondition.6: heap blocks are accounted for exactly");
    }
}

/* ---- C04: assignment from a pointer into the string's OWN storage (s = s.c_str() + k; s.set(s.c_str() + k, n)) ---- */
void h_str_set_utf8_self(void)
{
    str_ghosts(); struct ST_string t; mk_str(&t); SNAP_STR(&t, t0);
    size_t k = nondet_size_t(), n = nondet_size_t(); __CPROVER_assume(k <= t0_n && n <= t0_n - k && n < ((size_t)1 << 28));
    const char *src = t0_c + k; char s_at = GI0 < n ? src[GI0] : 0; long live0 = ST_LIVE;
    GI1 = n; GI2 = t0_n; GI3 = nondet_size_t(); VU.calls = 0; CU.calls = 0;
    ST_string__set_utf8__pc_sz_utf_validation_t(&t, src, n, ST_utf_validation_t_assume_valid);
    __CPROVER_assert(ST_EXC == 0, "ST_string_set_utf8_self.postcondition.1: no exception (assume_valid, no allocation fault injected)");
    __CPROVER_assert(STR_WF(&t) && t.m_buffer.m_size == n, "ST_string_set_utf8_self.postcondition.2: the string is well formed and has the length of the given range");
    __CPROVER_assert(!(GI0 < n) || t.m_buffer.m_chars[GI0] == s_at, "ST_string_set_utf8_self.postcondition.3: the string holds the bytes the range held BEFORE the call, although the range lies in the string's own storage (the argument is copied before the old value is released)");
    __CPROVER_assert(ST_LIVE == live0 - OWNS(t0_n) + OWNS(n), "ST_string_set_utf8_self.postcondition.4: the old block is released exactly once; nothing leaked");
}
#endif /* SET_HELPERS_ONLY */
