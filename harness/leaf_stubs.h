/* leaf_stubs.h — contract stubs of the leaf search/compare loops of st_string_priv.h, for callers (mode B).
 * Every assumed clause is a postcondition proved for the real function in the strpriv unit (C06/C07 leaf jobs);
 * every asserted clause is that function's precondition.  Arguments and results are recorded in LF / TRC_* so that
 * callers' postconditions can state WHAT was searched or compared (forwarding correctness).                       */
/* ghost declarations (LF, FS_PROBE, FS_HIT, FS_WIT, LEAF_EQ) are in spec/strpriv_ghost.h so that loop contracts can name them */
static const char *leaf_find_needle(int ci, const char *h, size_t n, const char *nd, size_t k)
{
    __CPROVER_assert(k >= 1, "find(needle).precondition: the needle is not empty");
    __CPROVER_assert((n == 0 || __CPROVER_r_ok(h, n)) && __CPROVER_r_ok(nd, k), "find(needle).precondition: haystack and needle readable");
    LF.calls++; LF.kind = ci ? LF_find_ci_needle : LF_find_cs_needle; LF.h = h; LF.n = n; LF.nd = nd; LF.k = k;
    size_t q = nondet_size_t(); const char *ret = (const char *)0;
    if (nondet_bool() && k <= n) {
        __CPROVER_assume(q <= n - k);
#ifdef LEAF_FACTS   /* content facts are only needed by callers whose own postcondition speaks about occurrences (find_last, replace, split) */
        __CPROVER_assume((GI1 < k ==> LEAF_EQ(ci, h[q + GI1], nd[GI1])) && (GI2 < k ==> LEAF_EQ(ci, h[q + GI2], nd[GI2])));   /* occurrence at q */
#endif
        ret = h + q;
    } else q = n;
#ifdef LEAF_FACTS
    /* first occurrence: the candidate at FS_PROBE, if it starts before q and has room, is not an occurrence (witness FS_WIT) */
    if (__CPROVER_same_object(FS_PROBE, h) && FS_PROBE >= h && FS_PROBE < h + q && k <= n && (size_t)(FS_PROBE - h) <= n - k) {
        size_t w = nondet_size_t();
        __CPROVER_assume(w < k && !LEAF_EQ(ci, FS_PROBE[w], nd[w]));
        FS_HIT = 1; FS_WIT = w;
    }
#endif
    LF.ret = ret;
    return ret;
}
#if defined(STUB_stp_find_cs__pc_sz_pc_sz) && !defined(LEAF_FIND_CUSTOM)
const char *stp_find_cs__pc_sz_pc_sz(const char *haystack, unsigned long size, const char *needle, unsigned long needle_size) { return leaf_find_needle(0, haystack, size, needle, needle_size); }
#endif
#if defined(STUB_stp_find_ci__pc_sz_pc_sz) && !defined(LEAF_FIND_CUSTOM)
const char *stp_find_ci__pc_sz_pc_sz(const char *haystack, unsigned long size, const char *needle, unsigned long needle_size) { return leaf_find_needle(1, haystack, size, needle, needle_size); }
#endif
#ifdef STUB_stp_find_ci__pc_sz_c
const char *stp_find_ci__pc_sz_c(const char *haystack, unsigned long size, char ch)
{
    __CPROVER_assert(size == 0 || __CPROVER_r_ok(haystack, size), "find_ci(char).precondition: haystack readable");
    LF.calls++; LF.kind = LF_find_ci_char; LF.h = haystack; LF.n = size; LF.ch = ch;
    TRF_S = haystack; TRF_N = size; TRF_C = ch; TRF_CALLS++;
    size_t k = nondet_size_t();
    if (nondet_bool() || size == 0) {
        __CPROVER_assume(!(__CPROVER_same_object(TRF_PROBE, haystack) && TRF_PROBE >= haystack && TRF_PROBE < haystack + size) || FOLD(*TRF_PROBE) != FOLD(ch));
        LF.ret = TRF_RET = (const char *)0; return (const char *)0;
    }
    __CPROVER_assume(k < size && FOLD(haystack[k]) == FOLD(ch));
    __CPROVER_assume(!(__CPROVER_same_object(TRF_PROBE, haystack) && TRF_PROBE >= haystack && TRF_PROBE < haystack + k) || FOLD(*TRF_PROBE) != FOLD(ch));
    LF.ret = TRF_RET = haystack + k; return haystack + k;
}
#endif
#ifdef STUB_stp_compare_ci__pc_pc_sz
int stp_compare_ci__pc_pc_sz(const char *left, const char *right, unsigned long fsize)
{
    __CPROVER_assert(fsize == 0 || (__CPROVER_r_ok(left, fsize) && __CPROVER_r_ok(right, fsize)), "compare_ci.precondition: both ranges readable");
    int r = nondet_int(); size_t w = nondet_size_t();
    if (TRC_CALLS > 0 && TRC_CI && TRC_A == (const void *)left && TRC_B == (const void *)right && TRC_N == fsize) { TRC_CALLS++; return TRC_R; }   /* a function of its arguments */
    TRC_CALLS++;
    if (fsize == 0) r = 0;
    if (!TR_FACTS) { w = fsize; }
    else if (r == 0) { __CPROVER_assume((GI0 < fsize ==> FOLD(left[GI0]) == FOLD(right[GI0])) && (GI1 < fsize ==> FOLD(left[GI1]) == FOLD(right[GI1]))); w = fsize; }
    else { __CPROVER_assume(w < fsize && FOLD(left[w]) != FOLD(right[w]) && SIGN(r) == SIGN((int)FOLD(left[w]) - (int)FOLD(right[w]))
                            && (GI0 < w ==> FOLD(left[GI0]) == FOLD(right[GI0])) && (GI1 < w ==> FOLD(left[GI1]) == FOLD(right[GI1]))); }
    if (left == CI_PROBE) { CI_HIT = 1; CI_WIT = w; }
    CI_D = w; TRC_R = r; TRC_N = fsize; TRC_A = left; TRC_B = right; TRC_W = w; TRC_CI = 1;
    return r;
}
#endif
