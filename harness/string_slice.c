/* harness/string_slice.c — contracts and proof harnesses for slicing members of ST::string (C08; frames for C04), mode B.
 * substr / left / right are proved against the clamp specification of the property text for every (start, count, size);
 * trim* are loop contracts over an uninterpreted membership predicate tied to char_traits::find's contract;
 * before_* / after_* are compositions over the contracts of find / find_last (stubs) and the real left / substr.        */
#include "/verif/harness/string.c"
#ifndef TRIM_SEL
#define TRIM_SEL 0
#endif
#ifndef BA_SEPKIND
#define BA_SEPKIND 0
#endif
#ifndef BA_WHICH
#define BA_WHICH 0
#endif

/* ---- result checks shared by all slicing harnesses ---- */
static void chk_slice(const struct ST_string *res, const char *s0_c, size_t s0_n, size_t from, size_t len, long live0)
{
    __CPROVER_assert(ST_EXC == 0, "slice.postcondition.1: slicing an existing string with sizes inside it never throws (no oversized allocation is attempted)");
    __CPROVER_assert(STR_WF(res), "slice.postcondition.2: the result is a well-formed string (size, terminator, storage class)");
    __CPROVER_assert(res->m_buffer.m_size == len, "slice.postcondition.3: the result has exactly the clamped length");
    __CPROVER_assert(!(GI0 < len) || res->m_buffer.m_chars[GI0] == s0_c[from + GI0], "slice.postcondition.4: every result byte is the source byte at the same position of the clamped range");
    __CPROVER_assert(res->m_buffer.m_size < SL || res->m_buffer.m_chars != s0_c, "slice.postcondition.5: the result owns its own storage");
    __CPROVER_assert(ST_LIVE == live0 + (res->m_buffer.m_size >= SL ? 1 : 0), "slice.postcondition.6: exactly the result's block is allocated; nothing leaked");
}
/* clamp specification, straight from the property text (mathematical integers: all operands < 2^63 here) */
#define CLAMP_S(start, n) ((start) < 0 ? (((ssize_t)(n) + (start)) < 0 ? (size_t)0 : (size_t)((ssize_t)(n) + (start))) : (size_t)(start))

void h_str_substr(void)
{
    str_ghosts(); struct ST_string s; mk_str(&s); SNAP_STR(&s, s0); long live0 = ST_LIVE;
    ssize_t start = (ssize_t)nondet_size_t(); size_t count = nondet_size_t();
    size_t n = s0_n;
    GI1 = s0_n;
    /* instantiation hint: the terminator index of the expected result */
    GI2 = (start >= 0 && (size_t)start > n) ? 0 : (((count >= n - CLAMP_S(start, n)) ? n : CLAMP_S(start, n) + count) - CLAMP_S(start, n));
    struct ST_string res;
    ST_string_substr(&res, &s, start, count);
    if (start >= 0 && (size_t)start > n) { chk_slice(&res, s0_c, n, 0, 0, live0); }
    else {
        size_t b = CLAMP_S(start, n);
        size_t e = (count >= n - b) ? n : b + count;      /* [start, start+count) clipped to the string; count == SIZE_MAX means "to the end" */
        chk_slice(&res, s0_c, n, b, e - b, live0);
    }
    __CPROVER_assert(STR_UNCHANGED(&s, s0), "ST_string_substr.postcondition.7: the source string is not modified");
}
void h_str_left_right(void)
{
    str_ghosts(); struct ST_string s; mk_str(&s); SNAP_STR(&s, s0); long live0 = ST_LIVE;
    size_t k = nondet_size_t(); size_t n = s0_n; size_t m = k < n ? k : n;
    GI1 = s0_n; GI2 = m;
    struct ST_string res;
    if (nondet_bool()) { ST_string_left(&res, &s, k); chk_slice(&res, s0_c, n, 0, m, live0); }
    else { ST_string_right(&res, &s, k); chk_slice(&res, s0_c, n, n - m, m, live0); }
    __CPROVER_assert(STR_UNCHANGED(&s, s0), "ST_string_left_right.postcondition.7: the source string is not modified");
}

/* ---- trim: membership in the character set is an uninterpreted predicate; char_traits::find on the charset pointer is its contract ---- */
void h_str_trim(void)
{
    str_ghosts(); struct ST_string s; mk_str(&s); SNAP_STR(&s, s0); long live0 = ST_LIVE;
    size_t cl; char *charset = mk_cstr(&cl); TRIM_CHARSET = charset;
    GI1 = s0_n; GI2 = nondet_size_t();   /* GI2: prophecy of the result length (terminator index), fixed after the call */
    int sel = TRIM_SEL;     /* 0 trim_left, 1 trim_right, 2 trim: one job each */
    struct ST_string res; TRIM_L = 0; TRIM_R = s0_n;
    if (sel == 0) ST_string_trim_left(&res, &s, charset);
    else if (sel == 1) ST_string_trim_right(&res, &s, charset);
    else ST_string_trim(&res, &s, charset);
    __CPROVER_assume(GI2 == res.m_buffer.m_size);
    if (s0_n == 0) chk_slice(&res, s0_c, 0, 0, 0, live0);
    else {
        size_t l = (sel == 1) ? 0 : TRIM_L, r = (sel == 0) ? s0_n : TRIM_R;      /* first kept / one past last kept, as found by the loops */
        __CPROVER_assert(l <= s0_n && r <= s0_n, "ST_string_trim.postcondition.0: the scan stays inside the string");
        if (l <= r) chk_slice(&res, s0_c, s0_n, l, r - l, live0); else chk_slice(&res, s0_c, s0_n, 0, 0, live0);
        __CPROVER_assert(sel == 1 || !(GI0 < l) || IN_SET(s0_c[GI0]), "ST_string_trim.postcondition.8: every removed leading byte belongs to the character set");
        __CPROVER_assert(sel == 1 || l >= s0_n || !IN_SET(s0_c[l]), "ST_string_trim.postcondition.9: the first kept byte does not belong to the character set");
        __CPROVER_assert(sel == 0 || !(GI0 >= r && GI0 < s0_n) || IN_SET(s0_c[GI0]) || l > r, "ST_string_trim.postcondition.10: every removed trailing byte belongs to the character set");
        __CPROVER_assert(sel == 0 || r == 0 || r <= l || !IN_SET(s0_c[r - 1]), "ST_string_trim.postcondition.11: the last kept byte does not belong to the character set");
    }
    __CPROVER_assert(STR_UNCHANGED(&s, s0), "ST_string_trim.postcondition.7: the source string is not modified");
}

/* ---- contract stubs for find_last (proved in the find_last jobs) used by before_last / after_last ---- */
struct { int calls; size_t max; const char *nd; size_t k; char ch; int is_char; int ci; ssize_t ret; } FL;
#ifdef STUB_ST_string__find_last
ssize_t ST_string__find_last(const struct ST_string *self, unsigned long max, const char *substr, unsigned long count, ST_case_sensitivity_t cs)
{
    __CPROVER_assert(count >= 1 && __CPROVER_r_ok(substr, count), "_find_last.precondition: needle readable and not empty");
    FL.calls++; FL.max = max; FL.nd = substr; FL.k = count; FL.is_char = 0; FL.ci = (cs != CS);
    size_t lim = max > self->m_buffer.m_size ? self->m_buffer.m_size : max;
    ssize_t r = -1;
    if (nondet_bool() && count <= lim) { size_t q = nondet_size_t(); __CPROVER_assume(q <= lim - count); r = (ssize_t)q; }
    FL.ret = r; return r;
}
#endif
#ifdef STUB_ST_string_find_last__sz_c_case_sensitivity_t_k
ssize_t ST_string_find_last__sz_c_case_sensitivity_t_k(const struct ST_string *self, unsigned long max, char ch, ST_case_sensitivity_t cs)
{
    FL.calls++; FL.max = max; FL.ch = ch; FL.is_char = 1; FL.ci = (cs != CS);
    size_t lim = max > self->m_buffer.m_size ? self->m_buffer.m_size : max;
    ssize_t r = -1;
    if (nondet_bool() && lim >= 1) { size_t q = nondet_size_t(); __CPROVER_assume(q < lim); r = (ssize_t)q; }
    FL.ret = r; return r;
}
#endif

/* ---- before_* / after_*: composition.  sepkind: 0 char, 1 const char*, 2 ST::string ---- */
void h_str_before_after(void)
{
    str_ghosts(); struct ST_string s; mk_str(&s); SNAP_STR(&s, s0); long live0; FL.calls = 0;
    int sepkind = BA_SEPKIND;   /* one job per (sepkind, which) */
    int which = BA_WHICH;     /* 0 before_first 1 after_first 2 before_last 3 after_last */
    _Bool ci = nondet_bool(); ST_case_sensitivity_t cs = ci ? CI_ : CS;
    char ch = (char)nondet_uchar(); size_t cl; char *sep = mk_cstr(&cl); struct ST_string sepstr; mk_str(&sepstr);
    GI1 = s0_n; GI2 = nondet_size_t();   /* prophecy of the result length (terminator index) */
    live0 = ST_LIVE;
    struct ST_string res;
    if (sepkind == 0) { if (which == 0) ST_string_before_first__c_case_sensitivity_t_k(&res, &s, ch, cs); else if (which == 1) ST_string_after_first__c_case_sensitivity_t_k(&res, &s, ch, cs);
                        else if (which == 2) ST_string_before_last__c_case_sensitivity_t_k(&res, &s, ch, cs); else ST_string_after_last__c_case_sensitivity_t_k(&res, &s, ch, cs); }
    else if (sepkind == 1) { if (which == 0) ST_string_before_first__pc_case_sensitivity_t_k(&res, &s, sep, cs); else if (which == 1) ST_string_after_first__pc_case_sensitivity_t_k(&res, &s, sep, cs);
                        else if (which == 2) ST_string_before_last__pc_case_sensitivity_t_k(&res, &s, sep, cs); else ST_string_after_last__pc_case_sensitivity_t_k(&res, &s, sep, cs); }
    else { if (which == 0) ST_string_before_first__rstring_case_sensitivity_t_k(&res, &s, &sepstr, cs); else if (which == 1) ST_string_after_first__rstring_case_sensitivity_t_k(&res, &s, &sepstr, cs);
           else if (which == 2) ST_string_before_last__rstring_case_sensitivity_t_k(&res, &s, &sepstr, cs); else ST_string_after_last__rstring_case_sensitivity_t_k(&res, &s, &sepstr, cs); }
    __CPROVER_assume(GI2 == res.m_buffer.m_size);
    /* where the separator was found (answer of the search contract), and how long it is */
    size_t seplen = sepkind == 0 ? 1 : sepkind == 1 ? TRL_RET : sepstr.m_buffer.m_size;
    ssize_t pos;
    if (which <= 1) pos = (sepkind == 0) ? (TRF_CALLS ? (TRF_RET ? TRF_RET - s0_c : -1) : -1) : (LF.calls ? (LF.ret ? LF.ret - s0_c : -1) : -1);
    else pos = FL.calls ? FL.ret : -1;
    /* the search itself was asked the right question */
    if (which <= 1 && sepkind == 0 && s0_n > 0) __CPROVER_assert(TRF_CALLS == 1 && TRF_S == s0_c && TRF_N == s0_n && TRF_C == ch, "ST_string_before_after.postcondition.0a: the first occurrence of the separator character in the whole string is searched");
    if (which <= 1 && sepkind != 0 && LF.calls) __CPROVER_assert(LF.h == s0_c && LF.n == s0_n && LF.k == seplen && LF.nd == (sepkind == 1 ? sep : sepstr.m_buffer.m_chars) && (LF.kind == LF_find_ci_needle) == ci, "ST_string_before_after.postcondition.0b: the first occurrence of exactly the separator text in the whole string is searched");
    if (which >= 2 && FL.calls) __CPROVER_assert(FL.max >= s0_n && FL.ci == ci && (sepkind == 0 ? (FL.is_char && FL.ch == ch) : (!FL.is_char && FL.k == seplen && FL.nd == (sepkind == 1 ? sep : sepstr.m_buffer.m_chars))), "ST_string_before_after.postcondition.0c: the last occurrence of exactly the separator in the whole string is searched");
    if (pos >= 0) {
        if (which == 0 || which == 2) chk_slice(&res, s0_c, s0_n, 0, (size_t)pos, live0);                                   /* text before the separator */
        else chk_slice(&res, s0_c, s0_n, (size_t)pos + seplen, s0_n - ((size_t)pos + seplen), live0);                     /* text after it: before + sep + after == original */
    } else {
        if (which == 0 || which == 3) chk_slice(&res, s0_c, s0_n, 0, s0_n, live0);                                        /* separator absent: before_first / after_last give the whole string */
        else chk_slice(&res, s0_c, s0_n, 0, 0, live0);                                                                     /* ... after_first / before_last the empty string */
    }
    __CPROVER_assert(STR_UNCHANGED(&s, s0), "ST_string_before_after.postcondition.7: the source string is not modified");
}
