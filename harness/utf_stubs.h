/* utf_stubs.h — contract stub of the structural UTF-8 validator for callers (mode B).
 * _ST_PRIVATE::validate_utf8 is proved in the UTF unit (C02: accepts exactly the structurally well-formed input, reads only
 * [buffer, buffer + size), terminates); callers only need: it reads its range, writes nothing, and returns success or one of
 * the failure codes.  The call is recorded in VU so that callers' postconditions can state WHAT was validated.             */
#ifdef STUB_stp_validate_utf8
struct { unsigned calls; const char *buf; size_t n; int ret; } VU;
stp_conversion_error_t stp_validate_utf8(const char *buffer, unsigned long size)
{
    __CPROVER_assert(size == 0 || __CPROVER_r_ok(buffer, size), "validate_utf8.precondition: the range is readable");
    VU.calls++; VU.buf = buffer; VU.n = size;
    stp_conversion_error_t r = stp_conversion_error_t_success;
    if (nondet_bool()) r = nondet_bool() ? stp_conversion_error_t_incomplete_utf8_seq : stp_conversion_error_t_invalid_utf8_seq;
    VU.ret = (int)r;
    return r;
}
#endif
