/* harness/sstream.c — contracts (PRE set-up / POST assertions) and proof harnesses for ST::string_stream (C16; fault mode: C19;
 * exception paths: C18), mode B.  All members between the public API and operator new[] / char_traits are the real extracted
 * code; the doubling loop of expand_buffer is closed by the loop contract in contracts/sstream.spec.
 *
 * Representation invariant WF_SS (DESIGN.md C.2): size <= capacity; capacity 256 <=> contents in the in-object array;
 * capacity > 256 <=> contents in a heap block of exactly `capacity` bytes owned by this object.
 * Abstract view: (m_size, m_chars[0..m_size)) observed at the arbitrary index GI0.                                            */
#define SS_STACK (sizeof(((struct ST_string_stream *)0)->m_stack))
#define SS_MAX ((size_t)1 << 37)      /* contents and each appended chunk stay below 2^37, so a doubled capacity stays below ST_MAXN = 2^40 */
#define SS_SLACK 4096                /* expand_buffer's own contract is proved for sizes up to SS_MAX + SS_SLACK: callers may append a few more bytes in several steps */
size_t SS_NBOUND;
#define WF_SS(s) ((s)->m_size <= (s)->m_alloc && (s)->m_alloc >= SS_STACK && (s)->m_alloc <= ST_MAXN \
    && ((s)->m_alloc == SS_STACK ? (s)->m_chars == (s)->m_stack : 1) \
    && ((s)->m_alloc >  SS_STACK ? (__CPROVER_DYNAMIC_OBJECT((s)->m_chars) && __CPROVER_POINTER_OFFSET((s)->m_chars) == 0 && __CPROVER_OBJECT_SIZE((s)->m_chars) == (s)->m_alloc && __CPROVER_r_ok((s)->m_chars, (s)->m_alloc)) : 1))
#define SS_OWNS(s) ((s)->m_alloc > SS_STACK ? 1 : 0)
#ifdef FAULT
#define FAULT_ON 1
#else
#define FAULT_ON 0
#endif
static void ss_ghosts(void) { GI0 = nondet_size_t(); GI1 = nondet_size_t(); GI2 = nondet_size_t(); ST_EXC = 0; ST_LIVE = 0; ST_FAULT = FAULT_ON; TRL_CALLS = 0; TRL_S = NULL; TRL_RET = 0; SS_NBOUND = 0; TR_SMALL = TR_SMALL2 = NULL; TR_BIG1 = TR_BIG2 = TR_BIG3 = NULL; ST_NEWEST = NULL; }
/* an arbitrary well-formed stream: symbolic capacity (256 in-object, or any larger heap capacity), symbolic size and contents */
static void mk_ss(struct ST_string_stream *s)
{
    size_t a = nondet_size_t(), n = nondet_size_t();
    __CPROVER_assume(a >= SS_STACK && a <= ST_MAXN && n <= a && n < (SS_NBOUND ? SS_NBOUND : SS_MAX));
#ifdef ONLY_STACK
    __CPROVER_assume(a == SS_STACK);
#endif
#ifdef ONLY_HEAP
    __CPROVER_assume(a > SS_STACK);
#endif
    s->m_alloc = a; s->m_size = n;
    if (a == SS_STACK) s->m_chars = s->m_stack;
    else { s->m_chars = malloc(a); __CPROVER_assume(s->m_chars != NULL); ST_LIVE++; if (TR_BIG1 == NULL) TR_BIG1 = s->m_chars; else TR_BIG2 = s->m_chars; }
    /* register the objects the copy stubs may write to (prelude.h, tr_havoc_char) */
    TR_SMALL_N = SS_STACK; if (TR_SMALL == NULL) TR_SMALL = s->m_stack; else TR_SMALL2 = s->m_stack;
}
#define SNAP_SS(s, p) size_t p##_size = (s)->m_size, p##_alloc = (s)->m_alloc; char *p##_chars = (s)->m_chars; char p##_at = (GI0 < (s)->m_size) ? (s)->m_chars[GI0] : 0; long p##_owns = SS_OWNS(s)
#define SS_UNCHANGED(s, p) ((s)->m_size == p##_size && (s)->m_alloc == p##_alloc && (s)->m_chars == p##_chars && (GI0 >= p##_size || (s)->m_chars[GI0] == p##_at))
#define SS_PREFIX_KEPT(s, p) (GI0 >= p##_size || (s)->m_chars[GI0] == p##_at)

/* contract of expand_buffer for its callers (every clause is a postcondition proved for the real function in job ss.expand) */
#ifdef STUB_ST_string_stream_expand_buffer
void ST_string_stream_expand_buffer(struct ST_string_stream *self, unsigned long added_size)
{
    __CPROVER_assert(WF_SS(self) && self->m_size < SS_MAX + SS_SLACK && added_size < SS_MAX, "expand_buffer.precondition: valid stream, sizes below 2^37");
    if (self->m_size + added_size <= self->m_alloc) return;                                  /* post.5 */
    if (ST_FAULT && nondet_bool()) { ST_EXC = EXC_std_bad_alloc; return; }                 /* post.6/7 */
    size_t na = nondet_size_t(); __CPROVER_assume(na >= self->m_size + added_size && na > SS_STACK && na <= ST_MAXN);
    char at = GI0 < self->m_size ? self->m_chars[GI0] : 0, at3 = GI3 < self->m_size ? self->m_chars[GI3] : 0;
    char *nb = malloc(na); __CPROVER_assume(nb != NULL); ST_LIVE++; ST_NEWEST = nb;
    if (SS_OWNS(self)) { free(self->m_chars); ST_LIVE--; }                                 /* post.4 */
    self->m_chars = nb; self->m_alloc = na;                                                /* post.1/2 */
    __CPROVER_assume((GI0 >= self->m_size || nb[GI0] == at) && (GI3 >= self->m_size || nb[GI3] == at3));     /* post.3 */
}
#endif

void h_ss_ctor_default(void)
{
    ss_ghosts(); struct ST_string_stream s;
    ST_string_stream_ctor__v(&s);
    __CPROVER_assert(WF_SS(&s) && s.m_size == 0 && s.m_alloc == SS_STACK, "ST_string_stream_ctor_default.postcondition.1: a new stream is a valid empty stream using its in-object buffer");
    __CPROVER_assert(ST_LIVE == 0 && ST_EXC == 0, "ST_string_stream_ctor_default.postcondition.2: allocates nothing, never throws");
}
void h_ss_dtor(void)
{
    ss_ghosts(); struct ST_string_stream s; mk_ss(&s); long live0 = ST_LIVE, owns0 = SS_OWNS(&s);
    ST_string_stream_dtor(&s);
    __CPROVER_assert(ST_LIVE == live0 - owns0, "ST_string_stream_dtor.postcondition.1: a heap-backed stream releases exactly its block, an in-object one releases nothing");
}
/* ---- expand_buffer: growth by doubling */
void h_ss_expand(void)
{
    ss_ghosts(); GI3 = nondet_size_t(); SS_NBOUND = SS_MAX + SS_SLACK; struct ST_string_stream s; mk_ss(&s); SNAP_SS(&s, s0); long live0 = ST_LIVE;
    char s0_at3 = GI3 < s0_size ? s.m_chars[GI3] : 0;
    size_t add = nondet_size_t(); __CPROVER_assume(add < SS_MAX);
    ST_string_stream_expand_buffer(&s, add);
    if (ST_EXC == 0) {
        __CPROVER_assert(WF_SS(&s), "ST_string_stream_expand_buffer.postcondition.1: the stream is valid after growth");
        __CPROVER_assert(s.m_alloc >= s0_size + add && s.m_size == s0_size, "ST_string_stream_expand_buffer.postcondition.2: capacity covers size + added bytes; size unchanged");
        __CPROVER_assert(SS_PREFIX_KEPT(&s, s0) && (GI3 >= s0_size || s.m_chars[GI3] == s0_at3), "ST_string_stream_expand_buffer.postcondition.3: every byte already appended is preserved across the switch to (larger) heap storage");
        __CPROVER_assert(ST_LIVE == live0 - s0_owns + SS_OWNS(&s), "ST_string_stream_expand_buffer.postcondition.4: the old heap block is released exactly when it is replaced; nothing leaked or freed twice");
        __CPROVER_assert(s0_size + add > s0_alloc || SS_UNCHANGED(&s, s0), "ST_string_stream_expand_buffer.postcondition.5: no reallocation when the bytes fit");
    } else {
        __CPROVER_assert(ST_EXC == EXC_std_bad_alloc && FAULT_ON, "ST_string_stream_expand_buffer.postcondition.6: only a failed allocation can be raised");
        __CPROVER_assert(WF_SS(&s) && SS_UNCHANGED(&s, s0) && ST_LIVE == live0, "ST_string_stream_expand_buffer.postcondition.7: after a failed allocation the stream is unchanged and still owns its storage");
    }
}
/* ---- append(data, size) / append(data) / operator<<(const char*) / operator<<(const ST::string&) / operator<<(const char8_t*) */
#ifndef APPEND_SEL
#define APPEND_SEL 0
#endif
void h_ss_append(void)
{
    ss_ghosts(); struct ST_string_stream s; mk_ss(&s); SNAP_SS(&s, s0); long live0;
    size_t n = nondet_size_t(); __CPROVER_assume(n < SS_MAX);
    int sel = APPEND_SEL;      /* 0 append(ptr,len)  1 append(cstr)  2 << const char*  3 << ST::string  4 << const char8_t*  5 append(NULL) */
    char *d = malloc(n + 1); __CPROVER_assume(d != NULL);
    struct ST_string str;
    if (sel == 1 || sel == 2 || sel == 4) d[n] = 0;
    if (sel == 3) { __CPROVER_assume(n < ST_MAXN); str.m_buffer.m_size = n; str.m_buffer.m_chars = d; d[n] = 0; }
    char d_at = (GI1 < n) ? d[GI1] : 0;
    live0 = ST_LIVE;
    struct ST_string_stream *r;
    if (sel == 0) r = ST_string_stream_append(&s, d, n);
    else if (sel == 1) r = ST_string_stream_append(&s, d, (size_t)-1);
    else if (sel == 2) r = ST_string_stream_op_shl__pc(&s, d);
    else if (sel == 3) r = ST_string_stream_op_shl__rstring(&s, &str);
    else if (sel == 4) r = ST_string_stream_op_shl__pc8(&s, (const unsigned char *)d);
    else { r = ST_string_stream_append(&s, NULL, (size_t)-1); n = 0; }
    if (sel == 1 || sel == 2 || sel == 4) { __CPROVER_assert(TRL_CALLS >= 1 && TRL_S == (const void *)d, "ST_string_stream_append.postcondition.0: the length of a C string is its C-string length"); n = TRL_RET; d_at = (GI1 < n) ? d[GI1] : 0; }
    if (ST_EXC == 0) {
        __CPROVER_assert(r == &s && WF_SS(&s), "ST_string_stream_append.postcondition.1: the stream is valid and returned by reference");
        __CPROVER_assert(s.m_size == s0_size + n, "ST_string_stream_append.postcondition.2: size grows by exactly the number of bytes given (all of them, embedded NULs included)");
        __CPROVER_assert(SS_PREFIX_KEPT(&s, s0), "ST_string_stream_append.postcondition.3: every byte appended earlier is unchanged, across any growth");
        __CPROVER_assert(GI1 >= n || s.m_chars[s0_size + GI1] == d_at, "ST_string_stream_append.postcondition.4: the new bytes are exactly the given bytes, in order, at the end");
        __CPROVER_assert(ST_LIVE == live0 - s0_owns + SS_OWNS(&s), "ST_string_stream_append.postcondition.5: at most the old block is released and one new block allocated; nothing leaked");
    } else {
        __CPROVER_assert(ST_EXC == EXC_std_bad_alloc && FAULT_ON, "ST_string_stream_append.postcondition.6: only a failed allocation can be raised");
        __CPROVER_assert(WF_SS(&s) && SS_UNCHANGED(&s, s0) && ST_LIVE == live0, "ST_string_stream_append.postcondition.7: after a failed allocation the stream still holds exactly its previous contents");
    }
}
void h_ss_append_char(void)
{
    ss_ghosts(); struct ST_string_stream s; mk_ss(&s); SNAP_SS(&s, s0); long live0 = ST_LIVE;
    size_t n = nondet_size_t(); __CPROVER_assume(n < SS_MAX); char ch = (char)nondet_uchar();
    struct ST_string_stream *r;
    if (nondet_bool()) r = ST_string_stream_append_char(&s, ch, n);
    else { n = 1; r = ST_string_stream_op_shl__c(&s, ch); }
    if (ST_EXC == 0) {
        __CPROVER_assert(r == &s && WF_SS(&s), "ST_string_stream_append_char.postcondition.1: the stream is valid and returned by reference");
        __CPROVER_assert(s.m_size == s0_size + n, "ST_string_stream_append_char.postcondition.2: size grows by exactly the repeat count");
        __CPROVER_assert(SS_PREFIX_KEPT(&s, s0), "ST_string_stream_append_char.postcondition.3: every byte appended earlier is unchanged");
        __CPROVER_assert(GI1 >= n || s.m_chars[s0_size + GI1] == ch, "ST_string_stream_append_char.postcondition.4: the new bytes are `count` copies of the character");
        __CPROVER_assert(ST_LIVE == live0 - s0_owns + SS_OWNS(&s), "ST_string_stream_append_char.postcondition.5: nothing leaked or freed twice");
    } else {
        __CPROVER_assert(ST_EXC == EXC_std_bad_alloc && FAULT_ON && WF_SS(&s) && SS_UNCHANGED(&s, s0) && ST_LIVE == live0, "ST_string_stream_append_char.postcondition.6: after a failed allocation the stream is unchanged");
    }
}
/* ---- truncate / erase / accessors */
void h_ss_truncate_erase(void)
{
    ss_ghosts(); struct ST_string_stream s; mk_ss(&s); SNAP_SS(&s, s0); long live0 = ST_LIVE;
    size_t k = nondet_size_t();
    __CPROVER_assert(ST_string_stream_size(&s) == s0_size && ST_string_stream_raw_buffer(&s) == s0_chars, "ST_string_stream_accessors.postcondition.1: size() and raw_buffer() report the stored contents");
    if (nondet_bool()) {
        ST_string_stream_truncate(&s, k);
        __CPROVER_assert(s.m_size == (k < s0_size ? k : s0_size), "ST_string_stream_truncate.postcondition.1: size becomes min(size, n)");
    } else {
        ST_string_stream_erase(&s, k);
        __CPROVER_assert(s.m_size == (k < s0_size ? s0_size - k : 0), "ST_string_stream_erase.postcondition.1: the last min(count, size) bytes are removed");
    }
    __CPROVER_assert(WF_SS(&s) && s.m_chars == s0_chars && s.m_alloc == s0_alloc && (GI0 >= s.m_size || s.m_chars[GI0] == s0_at), "ST_string_stream_truncate_erase.postcondition.2: the stream stays valid and the remaining prefix is unchanged");
    __CPROVER_assert(ST_LIVE == live0 && ST_EXC == 0, "ST_string_stream_truncate_erase.postcondition.3: no storage is released or allocated; never throws");
}
/* ---- moves */
void h_ss_ctor_move(void)
{
    ss_ghosts(); struct ST_string_stream m; mk_ss(&m); SNAP_SS(&m, m0); long live0 = ST_LIVE;
    struct ST_string_stream a; TR_SMALL2 = a.m_stack;
    ST_string_stream_ctor__xstring_stream(&a, &m);
    __CPROVER_assert(ST_EXC == 0 && WF_SS(&a), "ST_string_stream_ctor_move.postcondition.1: the new stream is valid (never throws)");
    __CPROVER_assert(a.m_size == m0_size && (GI0 >= m0_size || a.m_chars[GI0] == m0_at), "ST_string_stream_ctor_move.postcondition.2: the new stream holds exactly the source's old contents");
    __CPROVER_assert(WF_SS(&m) && m.m_size == 0, "ST_string_stream_ctor_move.postcondition.3: the moved-from stream is a valid empty stream (can be appended to, assigned to, destroyed)");
    __CPROVER_assert(!(SS_OWNS(&m) && SS_OWNS(&a)) || m.m_chars != a.m_chars, "ST_string_stream_ctor_move.postcondition.4: storage is not shared between the two streams");
    __CPROVER_assert(ST_LIVE == live0 && SS_OWNS(&a) + SS_OWNS(&m) == m0_owns, "ST_string_stream_ctor_move.postcondition.5: no block is leaked, freed or duplicated");
}
void h_ss_assign_move(void)
{
    ss_ghosts(); struct ST_string_stream a; mk_ss(&a); struct ST_string_stream m; mk_ss(&m); SNAP_SS(&m, m0); SNAP_SS(&a, a0); long live0 = ST_LIVE;
    struct ST_string_stream *r = ST_string_stream_op_assign__xstring_stream(&a, &m);
    __CPROVER_assert(ST_EXC == 0 && r == &a && WF_SS(&a), "ST_string_stream_assign_move.postcondition.1: the target is a valid stream (never throws)");
    __CPROVER_assert(a.m_size == m0_size && (GI0 >= m0_size || a.m_chars[GI0] == m0_at), "ST_string_stream_assign_move.postcondition.2: the target holds exactly the source's old contents");
    __CPROVER_assert(WF_SS(&m) && m.m_size == 0, "ST_string_stream_assign_move.postcondition.3: the moved-from stream is a valid empty stream");
    __CPROVER_assert(!(SS_OWNS(&m) && SS_OWNS(&a)) || m.m_chars != a.m_chars, "ST_string_stream_assign_move.postcondition.4: storage is not shared between the two streams");
    __CPROVER_assert(ST_LIVE == live0 - a0_owns - m0_owns + SS_OWNS(&a) + SS_OWNS(&m) && SS_OWNS(&a) + SS_OWNS(&m) == m0_owns, "ST_string_stream_assign_move.postcondition.5: the target's old block is released exactly once; nothing leaked or freed twice");
}
/* a moved-from stream is usable: append to it terminates and behaves like an append to an empty stream (composition of the two contracts,
 * checked here on the real code in one harness because the property names this history explicitly) */
void h_ss_move_then_append(void)
{
    ss_ghosts(); struct ST_string_stream m; mk_ss(&m); struct ST_string_stream a; TR_SMALL2 = a.m_stack;
    ST_string_stream_ctor__xstring_stream(&a, &m);
    size_t n = nondet_size_t(); __CPROVER_assume(n < SS_MAX); char ch = (char)nondet_uchar();
    ST_string_stream_append_char(&m, ch, n);
    __CPROVER_assert(ST_EXC != 0 || (WF_SS(&m) && m.m_size == n && (GI1 >= n || m.m_chars[GI1] == ch)), "ST_string_stream_move_then_append.postcondition.1: appending to a moved-from stream yields exactly the appended bytes");
}

/* ---- to_string: forwards exactly the contents to from_utf8 (validated) or from_latin_1 */
struct { int calls; int latin1; const char *p; size_t n; int validation; } TS;
#ifdef STUB_ST_string_from_utf8__pc_sz_utf_validation_t
void ST_string_from_utf8__pc_sz_utf_validation_t(struct ST_string *__ret, const char *utf8, unsigned long size, ST_utf_validation_t validation)
{ TS.calls++; TS.latin1 = 0; TS.p = utf8; TS.n = size; TS.validation = (int)validation; if (nondet_bool()) ST_EXC = EXC_ST_unicode_error; else { __ret->m_buffer.m_size = 0; __ret->m_buffer.m_chars = __ret->m_buffer.m_data; __ret->m_buffer.m_data[0] = 0; } }
#endif
#ifdef STUB_ST_string_from_latin_1__pc_sz
void ST_string_from_latin_1__pc_sz(struct ST_string *__ret, const char *astr, unsigned long size)
{ TS.calls++; TS.latin1 = 1; TS.p = astr; TS.n = size; __ret->m_buffer.m_size = 0; __ret->m_buffer.m_chars = __ret->m_buffer.m_data; __ret->m_buffer.m_data[0] = 0; }
#endif
void h_ss_to_string(void)
{
    ss_ghosts(); struct ST_string_stream s; mk_ss(&s); SNAP_SS(&s, s0); long live0 = ST_LIVE;
    _Bool utf8 = nondet_bool(); int v = nondet_int(); __CPROVER_assume(v >= 0 && v <= 2);
    struct ST_string res; TS.calls = 0;
    ST_string_stream_to_string(&res, &s, utf8, (ST_utf_validation_t)v);
    __CPROVER_assert(TS.calls == 1 && TS.p == s0_chars && TS.n == s0_size && TS.latin1 == !utf8 && (!utf8 || TS.validation == v), "ST_string_stream_to_string.postcondition.1: converts exactly raw_buffer()[0,size()) as validated UTF-8 (requested mode) or as Latin-1");
    __CPROVER_assert(WF_SS(&s) && SS_UNCHANGED(&s, s0) && ST_LIVE == live0, "ST_string_stream_to_string.postcondition.2: the stream is not modified, whether or not validation fails");
}

/* ---- wide text: operator<<(const wchar_t* / char16_t* / char32_t*) = append(transcoding); a rejected text leaves the stream unchanged (C18) */
struct { int calls; const void *p; size_t n; int validation; size_t outn; char out_at; } WC;
static void wide_stub(struct ST_buffer_char *__ret, const void *p, size_t n, int validation)
{
    WC.calls++; WC.p = p; WC.n = n; WC.validation = validation;
    if (nondet_bool()) { ST_EXC = EXC_ST_unicode_error; return; }
    size_t k = nondet_size_t(); __CPROVER_assume(k < SS_MAX);
    __ret->m_size = k;
    if (k < sizeof(__ret->m_data)) __ret->m_chars = __ret->m_data; else { __ret->m_chars = malloc(k + 1); __CPROVER_assume(__ret->m_chars != NULL); ST_LIVE++; }
    __CPROVER_assume(__ret->m_chars[k] == 0);
    WC.outn = k; WC.out_at = GI1 < k ? __ret->m_chars[GI1] : 0;
}
#ifdef STUB_ST_wchar_to_utf8__pwc_sz_utf_validation_t
void ST_wchar_to_utf8__pwc_sz_utf_validation_t(struct ST_buffer_char *__ret, const int32_t *wstr, unsigned long size, ST_utf_validation_t validation) { wide_stub(__ret, wstr, size, (int)validation); }
#endif
#ifdef STUB_ST_utf16_to_utf8__pc16_sz_utf_validation_t
void ST_utf16_to_utf8__pc16_sz_utf_validation_t(struct ST_buffer_char *__ret, const uint16_t *utf16, unsigned long size, ST_utf_validation_t validation) { wide_stub(__ret, utf16, size, (int)validation); }
#endif
#ifdef STUB_ST_utf32_to_utf8__pc32_sz_utf_validation_t
void ST_utf32_to_utf8__pc32_sz_utf_validation_t(struct ST_buffer_char *__ret, const uint32_t *utf32, unsigned long size, ST_utf_validation_t validation) { wide_stub(__ret, utf32, size, (int)validation); }
#endif
#ifndef WIDE_SEL
#define WIDE_SEL 0
#endif
void h_ss_wide(void)
{
    ss_ghosts(); struct ST_string_stream s; mk_ss(&s); SNAP_SS(&s, s0); long live0;
    size_t n = nondet_size_t(); __CPROVER_assume(n < ST_MAXN);
    _Bool isnull = nondet_bool(); WC.calls = 0;
    struct ST_string_stream *r; const void *p;
#if WIDE_SEL == 0
    int32_t *t = malloc((n + 1) * sizeof(int32_t)); __CPROVER_assume(t != NULL); t[n] = 0; p = t; live0 = ST_LIVE;
    r = ST_string_stream_op_shl__pwc(&s, isnull ? NULL : t);
#elif WIDE_SEL == 1
    uint16_t *t = malloc((n + 1) * sizeof(uint16_t)); __CPROVER_assume(t != NULL); t[n] = 0; p = t; live0 = ST_LIVE;
    r = ST_string_stream_op_shl__pc16(&s, isnull ? NULL : t);
#else
    uint32_t *t = malloc((n + 1) * sizeof(uint32_t)); __CPROVER_assume(t != NULL); t[n] = 0; p = t; live0 = ST_LIVE;
    r = ST_string_stream_op_shl__pc32(&s, isnull ? NULL : t);
#endif
    if (isnull) { __CPROVER_assert(ST_EXC == 0 && r == &s && SS_UNCHANGED(&s, s0) && WC.calls == 0, "ST_string_stream_wide.postcondition.0: a null text appends nothing"); return; }
    __CPROVER_assert(WC.calls == 1 && WC.p == p && TRL_S == p && WC.n == TRL_RET, "ST_string_stream_wide.postcondition.1: the whole NUL-terminated text is transcoded to UTF-8 (default validation)");
    if (ST_EXC == 0) {
        __CPROVER_assert(r == &s && WF_SS(&s) && s.m_size == s0_size + WC.outn && SS_PREFIX_KEPT(&s, s0), "ST_string_stream_wide.postcondition.2: exactly the transcoded bytes are appended; earlier contents unchanged");
        __CPROVER_assert(GI1 >= WC.outn || s.m_chars[s0_size + GI1] == WC.out_at, "ST_string_stream_wide.postcondition.3: the appended bytes are the transcoding, in order");
        __CPROVER_assert(ST_LIVE == live0 - s0_owns + SS_OWNS(&s), "ST_string_stream_wide.postcondition.4: the temporary conversion buffer is released; nothing leaked");
    } else {
        __CPROVER_assert(WF_SS(&s) && SS_UNCHANGED(&s, s0) && ST_LIVE == live0, "ST_string_stream_wide.postcondition.5: a rejected text (unicode_error) or failed allocation leaves the stream unchanged and leaks nothing");
    }
}

/* ---- integers: operator<<(int / unsigned / long / unsigned long / long long / unsigned long long) over the CONTRACT of
 * uint_formatter<T>::format (harness/numeric_stubs.h; proved in the C12 jobs): the same magnitude, base 10, lower case, as from_int */
#include "/verif/harness/numeric_stubs.h"
#ifdef SS_INT
#ifndef INT_SEL
#define INT_SEL 0
#endif
void h_ss_int(void)
{
    ss_ghosts(); FMT.calls = 0; struct ST_string_stream s; mk_ss(&s); SNAP_SS(&s, s0); long live0 = ST_LIVE;
    GI3 = s0_size;     /* instantiation hint: the sign position survives the growth of the second append */
    _Bool neg; unsigned long long mag; struct ST_string_stream *r;
#if INT_SEL == 0
    int v = nondet_int(); neg = v < 0; mag = neg ? (unsigned int)0 - (unsigned int)v : (unsigned int)v; r = ST_string_stream_op_shl__i(&s, v);
#elif INT_SEL == 1
    unsigned int v = nondet_unsigned(); neg = 0; mag = v; r = ST_string_stream_op_shl__u(&s, v);
#elif INT_SEL == 2
    long v = (long)nondet_llong(); neg = v < 0; mag = neg ? (unsigned long)0 - (unsigned long)v : (unsigned long)v; r = ST_string_stream_op_shl__l(&s, v);
#elif INT_SEL == 3
    unsigned long v = (unsigned long)nondet_ullong(); neg = 0; mag = v; r = ST_string_stream_op_shl__ul(&s, v);
#elif INT_SEL == 4
    long long v = nondet_llong(); neg = v < 0; mag = neg ? (unsigned long long)0 - (unsigned long long)v : (unsigned long long)v; r = ST_string_stream_op_shl__ll(&s, v);
#else
    unsigned long long v = nondet_ullong(); neg = 0; mag = v; r = ST_string_stream_op_shl__ull(&s, v);
#endif
    __CPROVER_assert(FMT.calls == 1 && FMT.value == mag && FMT.radix == 10 && !FMT.upper, "ST_string_stream_int.postcondition.1: formats exactly the magnitude |value| in base 10 (no undefined negation, most negative value included)");
    if (ST_EXC == 0) {
        __CPROVER_assert(r == &s && WF_SS(&s) && s.m_size == s0_size + FMT.k + (neg ? 1 : 0) && SS_PREFIX_KEPT(&s, s0), "ST_string_stream_int.postcondition.2: appends the digits (and one sign character for negatives); earlier contents unchanged");
        __CPROVER_assert(!neg || s.m_chars[s0_size] == '-', "ST_string_stream_int.postcondition.3: negatives start with '-'");
        __CPROVER_assert(GI1 >= FMT.k || s.m_chars[s0_size + (neg ? 1 : 0) + GI1] == FMT.at, "ST_string_stream_int.postcondition.4: the digits are exactly the formatter's text, in order");
        __CPROVER_assert(ST_LIVE == live0 - s0_owns + SS_OWNS(&s), "ST_string_stream_int.postcondition.5: nothing leaked");
    }
}
#endif
