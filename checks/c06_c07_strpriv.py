"""C06 / C07, leaf level: fold functions, compare_cs/ci, buffer<char>::compare, find_cs/ci (st_string_priv.h, st_charbuffer.h)."""
from checks.registry import unit, job, PROPS
F = ['_ST_PRIVATE::cl_fast_lower', '_ST_PRIVATE::cl_fast_upper', 'stp_compare_cs__pc_pc_sz', 'stp_compare_cs__pc_sz_pc_sz', 'stp_compare_cs__pc_sz_pc_sz_sz',
     'stp_compare_ci__pc_pc_sz', 'stp_compare_ci__pc_sz_pc_sz', 'stp_compare_ci__pc_sz_pc_sz_sz', 'stp_find_cs__pc_sz_c', 'stp_find_ci__pc_sz_c',
     'stp_find_cs__pc_sz_pc_sz', 'stp_find_ci__pc_sz_pc_sz', 'ST_buffer_char_compare__pc_sz_pc_sz', 'ST_buffer_char_compare__pc_sz_pc_sz_sz']
INC = ['spec/strpriv_spec.h', 'spec/strpriv_ghost.h']
unit('strpriv', functions=F, spec='contracts/strpriv.spec', harness='harness/strpriv.c', include=INC)
# callers verified against the CONTRACTS of compare_ci(l,r,n) and find_ci(h,n,ch) (stubs in harness/strpriv.c), not their bodies
unit('strpriv_mod', functions=[f for f in F if f not in ('stp_compare_ci__pc_pc_sz', 'stp_find_ci__pc_sz_c')], stubs=['stp_compare_ci__pc_pc_sz', 'stp_find_ci__pc_sz_c'],
     spec='contracts/strpriv_mod.spec', harness='harness/strpriv.c', include=INC)
job('strpriv', 'cl_fast', 'h_cl_fast', ['C06', 'C07', 'C09'], expect=[r'stp_cl_fast_lower\.postcondition', r'stp_cl_fast_upper\.postcondition'])
job('strpriv', 'buffer_compare', 'h_buffer_compare', ['C06'], expect=[r'ST_buffer_char_compare\.postcondition\.[123]'])
job('strpriv', 'compare_cs4', 'h_compare_cs4', ['C06'], expect=[r'stp_compare_cs4\.postcondition\.[123]'])
job('strpriv', 'buffer_compare_n', 'h_buffer_compare_n', ['C06'], expect=[r'ST_buffer_char_compare_n\.postcondition\.[123]'])
job('strpriv', 'compare_ci3', 'h_compare_ci3', ['C06', 'C07', 'C09'], expect=[r'stp_compare_ci\.postcondition\.[123]', r'stp_compare_ci__pc_pc_sz\.loop0\.invariant_step'])
job('strpriv_mod', 'compare_ci4', 'h_compare_ci4', ['C06'], expect=[r'stp_compare_ci4\.postcondition\.[123]'])
job('strpriv_mod', 'compare_ci5', 'h_compare_ci5', ['C06'], expect=[r'stp_compare_ci5\.postcondition\.[123]'])
job('strpriv', 'find_ci_char', 'h_find_ci_char', ['C07', 'C09'], expect=[r'stp_find_ci_char\.postcondition\.[12]', r'stp_find_ci__pc_sz_c\.loop0\.invariant_step'])
job('strpriv', 'find_cs_needle', 'h_find_cs_needle', ['C07', 'C09'], expect=[r'stp_find_cs_needle\.postcondition\.[123]', r'stp_find_cs__pc_sz_pc_sz\.loop0\.invariant_step', r'stp_find_cs__pc_sz_pc_sz\.loop0\.decreases'])
job('strpriv_mod', 'find_ci_needle', 'h_find_ci_needle', ['C07', 'C09'], expect=[r'stp_find_ci_needle\.postcondition\.[123]', r'stp_find_ci__pc_sz_pc_sz\.loop0\.invariant_step'])
PROPS['C06'] = dict(level='proof', explanation='compare (buffer and string, every overload) = first differing element under unsigned order, then length, for operands of any length, the size comparison never narrowed; case-insensitive compare = first fold-difference; fold functions over all 256 values; ==, !=, <, compare_n, the const char* / buffer / ST::string overloads, less_i / equal_i forwards are proved to ask the leaf contract about exactly size() units at data() of both operands and to map its sign; to_upper / to_lower change nothing but ASCII letters (loop contract, unbounded); hash / hash_i compute exactly the FNV-1a recurrence over the size() bytes (case-folded for hash_i), so equal resp. fold-equal strings hash equal (by induction over the recurrence, stated)', trusted_base=['char_traits<char>::compare contract (prelude.h tr_compare_char)'], assumptions=[])
PROPS['C07'] = dict(level='proof', explanation='needle and character search return the first occurrence for haystacks and needles of unbounded length (witness ghosts instead of quantifiers)', trusted_base=['char_traits<char>::find / compare contracts (prelude.h)'], assumptions=[])
BOPS = ['ST::buffer<char>::compare|(const buffer<char> &) const', 'ST::buffer<char>::operator==|(const buffer<char> &)', 'ST::buffer<char>::operator!=|(const buffer<char> &)', 'ST::buffer<char>::operator<',
        'ST::buffer<char>::compare_n|(const buffer<char> &', 'ST::buffer<char>::compare|(const char *) const']
unit('buffer_ops', functions=BOPS, stubs=['ST_buffer_char_compare__pc_sz_pc_sz', 'ST_buffer_char_compare__pc_sz_pc_sz_sz'], spec=None, harness='harness/buffer_ops.c', include=[])
job('buffer_ops', 'buffer.ops', 'h_buffer_ops', ['C06', 'C04'], solver='cadical', expect=[r'ST_buffer_char_ops\.postcondition\.[1-4]'])
job('buffer_ops', 'buffer.ops_cstr', 'h_buffer_ops_cstr', ['C06'], solver='cadical', expect=[r'ST_buffer_char_ops_cstr\.postcondition\.[12]'])
