"""C05 (and the buffer part of C19, C04): ST::buffer<T> representation invariant, four element types."""
from checks.registry import unit, job, PROPS, REPLAY, native_replay
INST = [('ST_buffer_char', 'c', 'char'), ('ST_buffer_wchar_t', 'wc', 'wchar_t'), ('ST_buffer_char16_t', 'c16', 'char16_t'), ('ST_buffer_char32_t', 'c32', 'char32_t')]
OPS = ['ctor_default', 'ctor_copy', 'ctor_move', 'ctor_ptr', 'ctor_fill', 'dtor', 'clear', 'assign_copy', 'assign_copy_self', 'assign_move', 'assign_move_self', 'allocate', 'allocate_fill', 'accessors']
ALLOCATING = ['ctor_copy', 'ctor_ptr', 'ctor_fill', 'assign_copy', 'allocate', 'allocate_fill']
funcs = []
for B, A, S in INST:
    funcs += [x.format(B=B, A=A) for x in ['{B}_ctor__v', '{B}_ctor__rbuffer{A}', '{B}_ctor__xbuffer{A}', '{B}_ctor__p{A}_sz', '{B}_ctor__sz_{A}', '{B}_dtor', '{B}_clear',
              '{B}_op_assign__rbuffer{A}', '{B}_op_assign__xbuffer{A}', '{B}_allocate__sz', '{B}_allocate__sz_{A}', '{B}_size', '{B}_data__v_k', '{B}_data__v',
              '{B}_c_str__v_k', '{B}_empty', '{B}_end__v_k', '{B}_begin__v_k']]
unit('buffer', functions=funcs, spec=None, harness='harness/buffer_gen.c')
for B, A, S in INST:
    quick = S in ('char', 'char32_t')
    for op in OPS:
        job('buffer', '%s.%s' % (S, op), 'h_%s_%s' % (S, op), ['C05'] + (['C04'] if op in ('ctor_copy', 'assign_copy', 'accessors', 'ctor_move', 'assign_move', 'assign_move_self', 'assign_copy_self') else []), tier='quick' if quick else 'thorough',
            expect=[r'%s_%s\.postcondition\.1' % (B, op)], timeout=900)
        if op in ALLOCATING:
            job('buffer', '%s.%s.fault' % (S, op), 'h_%s_%s' % (S, op), ['C19'], tier='quick' if quick else 'thorough', defines=['FAULT'],
                expect=[r'%s_%s\.postcondition\.1' % (B, op)], timeout=900)
PROPS['C05'] = dict(level='proof',
    explanation='every constructor, assignment, allocate, clear and the destructor of buffer<T> (T = char, wchar_t, char16_t, char32_t) is proved, for symbolic sizes across the whole range and both storage classes, to establish/preserve the representation invariant (size, terminator, short-in-object / long-on-heap exclusive storage), the value equation at an arbitrary index, and exact heap-block accounting (ST_LIVE); histories follow by induction over operations',
    trusted_base=['contracts/prelude.h: st_new_*/st_delete (malloc/free model with live-block counter), char_traits copy/move/assign stubs'],
    assumptions=['quick tier runs T = char and char32_t (in-object capacities 16 and 12); wchar_t and char16_t in the thorough tier'])

def replay_buffer(ws, pid, unit_, job_, rec, failed, report):
    """the harness states are real states (any well-formed buffer is constructible through the public constructors),
    so the verifier's sizes replay directly; contents are irrelevant to these obligations and replaced by a pattern"""
    from checks.registry import num
    parts = job_['name'].split('.')
    T, op = parts[0], parts[1]; fault = len(parts) > 2
    for ob in failed[:2]:
        inp = ob.get('inputs', {})
        A = num(inp.get('a0_size', inp.get('a.m_size', 0))); B = num(inp.get('m0_size', inp.get('c0_size', 0))); N = num(inp.get('n', 0))
        tries = [(A, B, N)]
        L = {'char': 16, 'char16_t': 16, 'wchar_t': 12, 'char32_t': 12}[T]
        if not inp: tries = [(a, b, n) for a in (0, L - 1, L + 5) for b in (0, L - 1, L + 5) for n in (0, L - 1, L + 5)]   # trace unavailable: enumerate the size classes
        for (a, b, n) in tries:
            args = ['T=' + T, 'op=' + op, 'A=%d' % a, 'B=%d' % b, 'N=%d' % n] + (['FAIL_AT=1'] if fault else [])
            out = native_replay(ws, 'buffer.cpp', args, report)
            if out and out['exit'] != 0: return True
    return False
REPLAY[r'(char|wchar_t|char16_t|char32_t)\.\w+(\.fault)?'] = replay_buffer
PROPS['C19'] = dict(level='proof',
    explanation='fault mode of the same contracts: operator new[] may fail at every call site (one symbolic choice per call); every allocating buffer operation is proved to propagate bad_alloc, leak nothing, free nothing twice, and leave the target well-formed holding its previous value or an empty value; string level (harness/string_set.c, fault jobs): operator+ (character, string), += (character, string) and set(const char_buffer&) under the same fault model: bad_alloc is the only exception, the target / operands keep their value (set: previous or empty value), partly built results are released; static fact S7: no function declared noexcept allocates or calls a function that may throw (a failed allocation would end in std::terminate instead of reaching the caller)',
    trusted_base=['contracts/prelude.h: st_new_* may raise bad_alloc when ST_FAULT is set (models a throwing operator new[])'],
    assumptions=['constructors that throw leave no object; only the block accounting is checked for them', 'std::vector growth inside split/tokenize is outside the extracted code (assumed strong guarantee)'])
