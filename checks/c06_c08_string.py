"""C06 / C07 / C08 (and C04 frames) at the ST::string level: members between the public API and the leaf loops."""
from checks.registry import unit, job, PROPS
LEAF_STUBS = ['stp_find_cs__pc_sz_pc_sz', 'stp_find_ci__pc_sz_pc_sz', 'stp_find_ci__pc_sz_c', 'stp_compare_ci__pc_pc_sz']
INC = ['spec/strpriv_spec.h', 'spec/strpriv_ghost.h']
SEARCH = ['ST_string_find__c_case_sensitivity_t_k', 'ST_string_find__sz_c_case_sensitivity_t_k', 'ST_string_contains__c_case_sensitivity_t_k',
          'ST_string_find__pc_case_sensitivity_t_k', 'ST_string_find__sz_pc_case_sensitivity_t_k', 'ST_string_find__pc_sz_case_sensitivity_t_k', 'ST_string_find__sz_pc_sz_case_sensitivity_t_k',
          'ST_string_contains__pc_sz_case_sensitivity_t_k', 'ST_string_find__rstring_case_sensitivity_t_k', 'ST_string_find__sz_rstring_case_sensitivity_t_k',
          'ST_string_starts_with__rstring_case_sensitivity_t_k', 'ST_string_ends_with__rstring_case_sensitivity_t_k', 'ST_string_starts_with__pc_case_sensitivity_t_k', 'ST_string_ends_with__pc_case_sensitivity_t_k',
          'ST_string_compare__rstring_case_sensitivity_t_k', 'ST_string_compare_i__rstring_k', 'ST_string_compare_n__rstring_sz_case_sensitivity_t_k', 'ST_string_compare_ni__rstring_sz_k',
          'ST_string_op_eq__rstring_k', 'ST_string_op_ne__rstring_k', 'ST_string_op_lt',
          'ST_string_compare__pc_case_sensitivity_t_k', 'ST_string_compare_i__pc_k', 'ST_string_compare_n__pc_sz_case_sensitivity_t_k', 'ST_string_compare_ni__pc_sz_k', 'ST_string_op_eq__pc_k', 'ST_string_op_ne__pc_k']
unit('string', functions=SEARCH, stubs=LEAF_STUBS, spec=None, harness='harness/string.c', include=INC)
job('string', 'str.find_char', 'h_str_find_char', ['C07', 'C04', 'C20'], expect=[r'ST_string_find_char\.postcondition\.[1-4]'])
job('string', 'str.find_cstr', 'h_str_find_cstr', ['C07'], expect=[r'ST_string_find_needle\.postcondition\.[123]'])
job('string', 'str.find_ptrlen', 'h_str_find_ptrlen', ['C07'], expect=[r'ST_string_find_needle\.postcondition\.[123]', r'ST_string_contains\.postcondition'])
job('string', 'str.find_string', 'h_str_find_string', ['C07'], expect=[r'ST_string_find_needle\.postcondition\.[123]'])
job('string', 'str.starts_ends_string', 'h_str_starts_ends_string', ['C07'], defines=['TR_NO_FACTS'], expect=[r'ST_string_starts_with\.postcondition\.2', r'ST_string_ends_with\.postcondition\.2'])
job('string', 'str.starts_ends_cstr', 'h_str_starts_ends_cstr', ['C07'], defines=['TR_NO_FACTS'], expect=[r'ST_string_starts_with_cstr\.postcondition\.2', r'ST_string_ends_with_cstr\.postcondition\.2'])
job('string', 'str.compare_string', 'h_str_compare_string', ['C06', 'C04', 'C20'], defines=['TR_NO_FACTS'], expect=[r'ST_string_compare\.postcondition\.[123]', r'ST_string_operators\.postcondition\.[123]'])
job('string', 'str.compare_cstr', 'h_str_compare_cstr', ['C06'], defines=['TR_NO_FACTS'], expect=[r'ST_string_compare_cstr\.postcondition\.[12]'])

# ---- C08: slicing
SLICE = ['ST_string_substr', 'ST_string_left', 'ST_string_right', 'ST_string_trim_left', 'ST_string_trim_right', 'ST_string_trim'] + \
        ['ST_string_%s__%s_case_sensitivity_t_k' % (f, a) for f in ('before_first', 'after_first', 'before_last', 'after_last') for a in ('c', 'pc', 'rstring')]
unit('string_slice', functions=SLICE, stubs=LEAF_STUBS + ['ST_string__find_last', 'ST_string_find_last__sz_c_case_sensitivity_t_k'], spec='contracts/string_slice.spec',
     harness='harness/string_slice.c', include=INC)
job('string_slice', 'str.substr', 'h_str_substr', ['C08', 'C04'], expect=[r'slice\.postcondition\.[1-6]', r'ST_string_substr\.postcondition\.7'])
job('string_slice', 'str.left_right', 'h_str_left_right', ['C08', 'C04'], expect=[r'slice\.postcondition\.[1-6]'])
for sel, nm in enumerate(['trim_left', 'trim_right', 'trim']):
    job('string_slice', 'str.' + nm, 'h_str_trim', ['C08', 'C04'], defines=['TRIM_SEL=%d' % sel], timeout=900,
        expect=[r'slice\.postcondition\.[1-6]', r'ST_string_trim\.postcondition\.(8|9|10|11)', r'ST_string_%s\.loop0\.invariant_step' % nm])
for w, wn in enumerate(['before_first', 'after_first', 'before_last', 'after_last']):
    for k, kn in enumerate(['char', 'cstr', 'string']):
        job('string_slice', 'str.%s.%s' % (wn, kn), 'h_str_before_after', ['C08', 'C04'] if kn == 'string' else ['C08'], defines=['BA_WHICH=%d' % w, 'BA_SEPKIND=%d' % k], timeout=900, expect=[r'slice\.postcondition\.[1-6]'])
# ---- C07 (and C08 before_last/after_last): find_last
unit('string_findlast', functions=['ST_string__find_last', 'ST_string_find_last__sz_c_case_sensitivity_t_k'], stubs=LEAF_STUBS, spec='contracts/string_findlast.spec', harness='harness/string_findlast.c', include=INC)
job('string_findlast', 'str.find_last_needle', 'h_str_find_last_needle', ['C07', 'C08'], timeout=1500, solver='cadical', expect=[r'ST_string_find_last\.postcondition\.[1-4]', r'ST_string__find_last\.loop0\.invariant_step', r'ST_string__find_last\.loop0\.decreases'])
job('string_findlast', 'str.find_last_char', 'h_str_find_last_char', ['C07', 'C08'], timeout=900, expect=[r'ST_string_find_last_char\.postcondition\.[1-4]', r'ST_string_find_last__sz_c_case_sensitivity_t_k\.loop0\.invariant_step'])
FLF = ['ST_string_find_last__%s_case_sensitivity_t_k' % a for a in ('pc', 'sz_pc', 'pc_sz', 'sz_pc_sz', 'rstring', 'sz_rstring')]
unit('string_findlast_fwd', functions=FLF, stubs=LEAF_STUBS + ['ST_string__find_last'], spec=None, harness='harness/string_findlast.c', include=INC)
job('string_findlast_fwd', 'str.find_last_forward', 'h_str_find_last_forward', ['C07'], expect=[r'ST_string_find_last_forward\.postcondition\.[12]'])
PROPS['C08'] = dict(level='proof', explanation='substr/left/right proved against the clamp specification of the property text for every start, count and size (no oversized allocation request: operator new[] stub asserts it); trim loops proved for unbounded length against an uninterpreted membership predicate; before/after are compositions over the search contracts and the real substr/left: before + separator + after reassembles the original',
    trusted_base=['char_traits<char>::find/length/copy contracts (prelude.h)', 'leaf search contracts (harness/leaf_stubs.h), each clause proved in the C07 leaf jobs'], assumptions=[])
# ---- C09: split / tokenize / replace
SPLIT = ['ST::string::split|(const ST::string &, size_t', 'ST::string::split|(const char *, size_t', 'ST::string::split|(char, size_t', 'ST::string::tokenize',
         'ST::string::replace|(const ST::string &, const ST::string &, ST::case_sensitivity_t) const']
unit('string_split', functions=SPLIT, stubs=LEAF_STUBS + ['ST_string_ctor__pc_sz_utf_validation_t', 'stp_validate_utf8'], spec='contracts/string_split.spec', harness='harness/string_split.c', include=INC + ['spec/split_ghost.h'])
job('string_split', 'str.split_string', 'h_str_split_string', ['C09', 'C04'], timeout=900, solver='cadical', expect=[r'ST_string_split\.postcondition\.[1-7]', r'ST_string_split\.step\.[123]', r'loop0\.decreases'])
job('string_split', 'str.split_cstr', 'h_str_split_cstr', ['C09'], timeout=900, solver='cadical', expect=[r'ST_string_split\.postcondition\.[1-7]', r'ST_string_split\.step\.[123]', r'loop1\.decreases'])
job('string_split', 'str.split_char', 'h_str_split_char', ['C09', 'C04'], timeout=900, solver='cadical', expect=[r'ST_string_split\.postcondition\.[1-7]', r'ST_string_split\.step\.[123]', r'loop0\.decreases'])
job('string_split', 'str.tokenize', 'h_str_tokenize', ['C09', 'C04'], timeout=900, solver='cadical', expect=[r'ST_string_tokenize\.postcondition\.[1267]', r'ST_string_tokenize\.step\.[1-6]', r'loop[012]\.decreases'])
job('string_split', 'str.replace', 'h_str_replace', ['C09', 'C04'], tier='thorough', timeout=3000, solver='cadical', defines=['RP_NO_CONTENT=1'], expect=[r'ST_string_replace\.postcondition\.([1-9]|10)', r'ST_string_replace\.count\.[123]', r'ST_string_replace\.copy\.[12]', r'loop[01]\.decreases'])
unit('string_replace_bounded', functions=[SPLIT[4]], stubs=['stp_validate_utf8'], spec=None, harness='harness/string_split_bounded.c', include=INC)
PROPS['C09'] = dict(level='proof', explanation='split (char, const char *, ST::string separators) and tokenize proved for texts and separators of unbounded length: every step appends exactly the text between the resume point and the first occurrence the search contract reports, resumes right after it, makes at most max cuts, the last piece runs to the end (so joining reproduces the text), an empty separator leaves the text whole, tokens are exactly the maximal non-empty runs of non-delimiter bytes, every loop terminates with a decreasing measure; the searches themselves are the C07 leaf contracts (first occurrence, ASCII-only folding), re-run under this property.  replace(): the whole function, real code down to the leaf search loops, is checked BOUNDED (text <= 3 bytes in the quick tier, <= 4 in the thorough tier; pattern <= 2, replacement <= 2 bytes; both case modes) against a reference implementation written from the property text — a stand-in, not counted as proved; split and tokenize are cross-checked the same way (a restructured loop that no longer fits its contract is still decided, with a real input).  The unbounded loop contracts of replace (counting scan == copying scan via the ghost function REM, segment-wise content) are kept in contracts/string_split.spec and run in the thorough tier (reported as undecided there if the solver does not finish)',
    trusted_base=['std::vector<ST::string> push/ctor/dtor contract (harness/string_split.c: appends one element, strong guarantee)', 'char_traits<char>::find/length/copy contracts (prelude.h)', 'search oracle NXT(off): the needle search is a function of the start offset on an unmodified text; its contract (NULL or an occurrence inside the range) is the one proved for find_cs/find_ci in the C07 leaf jobs', 'string(const char*, size_t, utf_validation_t) contract stub in split(const char*) (copy, or unicode_error under check_validity)'],
    assumptions=['per-step facts are machine-checked; "the pieces, joined by the separator, reproduce the text" and "tokens are exactly the maximal runs" follow by induction over steps (stated, not machine-checked)', 'overload agreement (char / const char * / ST::string) holds because each form is proved against the same step specification'])
unit('string_split_bounded', functions=SPLIT[:4], stubs=['stp_validate_utf8'], spec=None, harness='harness/string_split_bounded.c', include=INC)
for _t, _S in (('quick', 3), ('thorough', 4)):
    _sfx = '' if _t == 'quick' else '.%d' % _S
    _d = ['TR_CONCRETE', 'RB_S=%d' % _S, 'RB_F=2', 'RB_T=2']
    job('string_replace_bounded', 'bounded.str.replace' + _sfx, 'hb_str_replace', ['C09'], tier=_t, kind='bounded', bound='text <= %d bytes, pattern <= 2, replacement <= 2, both case modes' % _S, defines=_d, unwind=3 * _S + 2, solver='cadical', timeout=2400, object_bits=8)
    for _f, _fn in enumerate(['string', 'cstr', 'char']):
        job('string_split_bounded', 'bounded.str.split_%s' % _fn + _sfx, 'hb_str_split', ['C09'], tier=_t, kind='bounded', bound='text <= %d bytes, separator <= 2 bytes, %s form, both case modes, any max' % (_S, _fn), defines=_d + ['RB_SPLIT', 'RB_FORM=%d' % _f], unwind=_S + 4, solver='cadical', timeout=2400, object_bits=8)
    job('string_split_bounded', 'bounded.str.tokenize' + _sfx, 'hb_str_tokenize', ['C09'], tier=_t, kind='bounded', bound='text <= %d bytes, delimiter set <= 2 bytes' % _S, defines=_d + ['RB_SPLIT'], unwind=_S + 4, solver='cadical', timeout=2400, object_bits=8)
unit('string_case', functions=['ST::string::to_lower', 'ST::string::to_upper'], stubs=[], spec='contracts/string_case.spec', harness='harness/string_case.c', include=['spec/strpriv_spec.h', 'spec/strpriv_ghost.h'])
job('string_case', 'str.to_lower', 'h_str_case', ['C06', 'C04'], solver='cadical', defines=['CASE_UPPER=0'], expect=[r'ST_string_case\.postcondition\.[1-4]', r'ST_string_to_lower\.loop0\.invariant_step', r'ST_string_to_lower\.loop0\.decreases'])
job('string_case', 'str.to_upper', 'h_str_case', ['C06', 'C04'], solver='cadical', defines=['CASE_UPPER=1'], expect=[r'ST_string_case\.postcondition\.[1-4]', r'ST_string_to_upper\.loop0\.invariant_step', r'ST_string_to_upper\.loop0\.decreases'])

# ---- native replay of C09 counterexamples: a failure of a cut-loop proof is re-run bounded from real states, then replayed on the real headers
from checks.registry import REPLAY, native_replay, replay_inputs_from_trace, UNITS
def replay_c09(ws, pid, unit_, job_, rec, failed, report):
    import runner
    nm = job_['name']
    fn = 'replace' if 'replace' in nm else 'tokenize' if 'tokenize' in nm else 'split'
    if nm.startswith('bounded.'): brec = rec
    else:
        d = ['TR_CONCRETE', 'RB_S=3', 'RB_F=2', 'RB_T=2'] + ([] if fn == 'replace' else ['RB_SPLIT'])
        bj = dict(name='replay.bounded.str.' + fn, entry='hb_str_' + fn, defines=d, unwind=7, solver='cadical', timeout=900, object_bits=8)
        brec = runner.run_job(ws, UNITS['string_replace_bounded' if fn == 'replace' else 'string_split_bounded'], bj, 'quick')
        report['bounded_rerun'] = {'status': brec['status'], 'failed': [o['description'] for o in brec.get('failed', [])], 'bound': 'text <= 3, pattern / separator <= 2, replacement <= 2'}
    for ob in brec.get('failed', [])[:3]:
        args = ['fn=' + fn] + replay_inputs_from_trace(ob.get('inputs', {}))
        out = native_replay(ws, 'strsplit.cpp', args, report)
        if out and out['exit'] != 0: return True
    return False
REPLAY[r'(bounded\.)?str\.(split_string|split_cstr|split_char|split|tokenize|replace)(\.(cs|ci))?(\.\d)?'] = replay_c09
unit('string_hash', functions=['ST::hash::operator()', 'ST::hash_i::operator()'], stubs=[], spec='contracts/string_hash.spec', harness='harness/string_hash.c', include=['spec/strpriv_spec.h', 'spec/strpriv_ghost.h', 'spec/hash_ghost.h'])
job('string_hash', 'str.hash', 'h_str_hash', ['C06', 'C04'], solver='cadical', defines=['HASH_I=0'], expect=[r'ST_hash\.postcondition\.[12]', r'ST_hash_op_call\.loop0\.invariant_step', r'ST_hash_op_call\.loop0\.decreases'])
job('string_hash', 'str.hash_i', 'h_str_hash', ['C06', 'C04'], solver='cadical', defines=['HASH_I=1'], expect=[r'ST_hash\.postcondition\.[12]', r'ST_hash_i_op_call\.loop0\.invariant_step', r'ST_hash_i_op_call\.loop0\.decreases'])
