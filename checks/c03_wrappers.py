"""C01.6 / C03.5 / C18: the pointer-overload conversion wrappers of st_utf_conv.h over the contracts of the measure / convert loops."""
import json, os
from checks.registry import unit, job, PROPS, VERIF
W = json.load(open(os.path.join(VERIF, 'contracts', 'wrappers.json')))
unit('utf_wrappers', functions=[w['selector'] for w in W['wrappers']], stubs=W['stubs'], spec=None, harness='harness/utf_wrappers_gen.c', include=[])
for w in W['wrappers']:
    p = w['pair']; P = 'ST_' + p
    job('utf_wrappers', 'wrap.' + p, 'h_wrap_' + p, ['C03', 'C01', 'C18'], solver='cadical', timeout=600, expect=[P.replace('.', r'\.') + r'\.postcondition\.[1-6]', P + r'\.postcondition\.9'])
