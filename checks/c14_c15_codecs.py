"""C14 / C15: hex and base64 codecs (private forms; the public wrappers are added by the wrappers unit)."""
from checks.registry import unit, job, PROPS, REPLAY, native_replay, replay_inputs_from_trace
import re

CODEC_FUNCS = ['_ST_PRIVATE::b64_decode', '_ST_PRIVATE::hex_decode', '_ST_PRIVATE::hex_encode', '_ST_PRIVATE::b64_encode', '_ST_PRIVATE::b64_encode_size']
NOTHROW = ['_ST_PRIVATE::b64_decode_size', '_ST_PRIVATE::b64_encode_size']
unit('codecs', functions=CODEC_FUNCS, spec='contracts/codecs.spec', harness='harness/codecs.c', include=['spec/codecs_spec.h'], nothrow=NOTHROW)
unit('codecs_bounded', functions=CODEC_FUNCS, spec=None, harness='harness/codecs.c', include=['spec/codecs_spec.h'], nothrow=NOTHROW)

T = ['ST::string accessors size()/c_str() are extracted and inlined (not assumed)']
job('codecs', 'b64_decode', 'h_b64_decode', ['C14', 'C15'], expect=[r'stp_b64_decode\.postcondition\.[1-6]', r'stp_b64_decode\.loop0\.invariant_step', r'stp_b64_decode\.loop0\.decreases'])
job('codecs', 'b64_decode.valid', 'h_b64_decode', ['C14', 'C15'], defines=['HYP_VALID'], expect=[r'stp_b64_decode\.postcondition\.7'])
job('codecs', 'hex_decode', 'h_hex_decode', ['C14', 'C15'], expect=[r'stp_hex_decode\.postcondition\.[1-4]', r'stp_hex_decode\.loop0\.invariant_step'])
job('codecs', 'hex_decode.valid', 'h_hex_decode', ['C14', 'C15'], defines=['HYP_VALID'], expect=[r'stp_hex_decode\.postcondition\.5'])
job('codecs', 'hex_encode', 'h_hex_encode', ['C14'], expect=[r'stp_hex_encode\.postcondition\.[12]', r'stp_hex_encode\.loop0\.invariant_step'])
job('codecs', 'b64_encode', 'h_b64_encode', ['C14'], expect=[r'stp_b64_encode\.postcondition\.[1-5]', r'stp_b64_encode\.loop0\.invariant_step'])
job('codecs', 'b64_sizes', 'h_b64_sizes', ['C14', 'C15'], expect=[r'stp_b64_encode_size\.postcondition', r'stp_b64_decode_size\.postcondition'])
job('codecs', 'lemma_b64_roundtrip', 'h_lemma_b64_roundtrip', ['C14'], kind='lemma', expect=[r'lemma_b64\.[1-6]'])
job('codecs', 'lemma_hex_roundtrip', 'h_lemma_hex_roundtrip', ['C14'], kind='lemma', expect=[r'lemma_hex\.[1-3]'])
# bounded real-state cross-checks (thorough) — also the source of replayable counterexamples
for fn, props in (('b64_decode', ['C14', 'C15']), ('hex_decode', ['C14', 'C15']), ('b64_encode', ['C14']), ('hex_encode', ['C14'])):
    job('codecs_bounded', 'bounded.' + fn, 'hb_' + fn, props, tier='thorough', kind='bounded', bound='input <= 12 units, output buffer <= 12 bytes', defines=['BOUNDED=12'], unwind=14, solver='minisat', timeout=1800)

def replay_codecs(ws, pid, unit_, job_, rec, failed, report):
    """counterexamples of the cut-loop proofs start from havocked states; re-run the function bounded from real states and replay natively"""
    import runner
    from checks.registry import UNITS
    base = job_['name'].split('.')[0] if not job_['name'].startswith('bounded.') else job_['name'].split('.')[1]
    if base in ('b64_sizes', 'lemma_b64_roundtrip', 'lemma_hex_roundtrip'): return False
    if job_['name'].startswith('bounded.'):
        brec = rec
    else:
        bj = dict(name='replay.bounded.' + base, entry='hb_' + base, defines=['BOUNDED=8'], unwind=10, solver='kissat', timeout=900)
        brec = runner.run_job(ws, UNITS['codecs_bounded'], bj, 'quick')
        report['bounded_rerun'] = {'status': brec['status'], 'failed': [o['description'] for o in brec.get('failed', [])], 'bound': 'input <= 8'}
    found = False
    for ob in brec.get('failed', [])[:3]:
        args = ['fn=' + base] + replay_inputs_from_trace(ob.get('inputs', {}))
        out = native_replay(ws, 'codecs.cpp', args, report)
        if out and out['exit'] != 0: found = True; break
    return found
REPLAY[r'(bounded\.)?(b64_decode|hex_decode|b64_encode|hex_encode)(\.valid)?'] = replay_codecs

_common = dict(level='proof',
    trusted_base=['contracts/prelude.h stubs (malloc-based operator new[] model, exception flag)', 'spec/codecs_spec.h (oracle written from RFC 4648 / property text)'],
    assumptions=['valid ==> success (C15) is proved with the universal hypothesis "every position is acceptable" instantiated at the positions each step reads (DESIGN.md section 3)'])
PROPS['C14'] = dict(_common, explanation='encode/decode loops of the private codec functions proved for unbounded length (loop cutting, ghost group index); round trip = loop-free lemma over all 2^24 groups and tails composed with the two contracts')
PROPS['C15'] = dict(_common, explanation='decoders: no overrun of a fresh output block of symbolic size, promised length, success <=> valid, for unbounded length')
