"""C01 / C02 / C03: UTF conversions (private loops and per-character functions; wrappers are in the wrappers unit)."""
from checks.registry import unit, job, PROPS, REPLAY, native_replay, replay_inputs_from_trace
import sys, os
sys.path.insert(0, os.path.join(os.path.dirname(os.path.dirname(os.path.abspath(__file__))), 'contracts'))

CONVERT = ['utf8_convert_from_utf16', 'utf8_convert_from_utf32', 'utf8_convert_from_latin_1', 'utf16_convert_from_utf8', 'utf16_convert_from_utf32',
           'utf32_convert_from_utf8', 'utf32_convert_from_utf16', 'utf16_convert_from_latin_1', 'utf32_convert_from_latin_1',
           'latin_1_convert_from_utf8', 'latin_1_convert_from_utf16', 'latin_1_convert_from_utf32']
MEASURE = ['utf8_measure_from_utf16', 'utf8_measure_from_utf32', 'utf8_measure_from_latin_1', 'utf16_measure_from_utf8', 'utf16_measure_from_utf32',
           'utf32_measure_from_utf8', 'utf32_measure_from_utf16']
LEAF = ['write_utf8', 'utf8_measure', 'write_utf16', 'utf16_measure', 'extract_utf8', 'extract_utf16', 'raise_conversion_error', 'validate_utf8', 'cleanup_utf8']
FUNCS = ['_ST_PRIVATE::' + f for f in CONVERT + MEASURE + LEAF]
unit('utf', functions=FUNCS, spec='contracts/utf.spec', harness='harness/utf_all.c', include=['spec/utf_spec.h', 'spec/utf_ghost.h'])

ALL = ['C01', 'C02', 'C03']
for f in CONVERT:
    job('utf', f, 'h_' + f, ALL, expect=[r'stp_%s\.step\.1' % f, r'stp_%s\.step\.5' % f, r'stp_%s\.loop0\.decreases' % f, r'step\.def\.1'])
for f in MEASURE:
    job('utf', f, 'h_' + f, ['C01', 'C03'], expect=[r'stp_%s\.step\.2' % f, r'stp_%s\.postcondition\.1' % f, r'stp_%s\.loop0\.decreases' % f])
job('utf', 'write_utf8', 'h_write_utf8', ALL, expect=[r'stp_write_utf8\.postcondition\.[1-8]', r'stp_utf8_measure\.postcondition'])
job('utf', 'write_utf16', 'h_write_utf16', ALL, expect=[r'stp_write_utf16\.postcondition\.[1-5]', r'stp_utf16_measure\.postcondition'])
job('utf', 'extract_utf8', 'h_extract_utf8', ALL, expect=[r'stp_extract_utf8\.postcondition\.[1-3]'])
job('utf', 'extract_utf16', 'h_extract_utf16', ALL, expect=[r'stp_extract_utf16\.postcondition\.[1-3]'])
job('utf', 'lemma_utf_roundtrip', 'h_lemma_utf_roundtrip', ['C01'], kind='lemma', expect=[r'lemma_utf\.[1-4]'])
job('utf', 'raise_conversion_error', 'h_raise_conversion_error', ['C02', 'C03'], expect=[r'stp_raise_conversion_error\.postcondition'])
job('utf', 'validate_utf8', 'h_validate_utf8', ALL, expect=[r'stp_validate_utf8\.step\.[12]', r'stp_validate_utf8\.postcondition'])
job('utf', 'cleanup_utf8', 'h_cleanup_utf8', ALL, expect=[r'stp_cleanup_utf8\.step\.[1-4]', r'stp_cleanup_utf8\.postcondition'])

_common = dict(level='proof',
    trusted_base=['contracts/prelude.h stubs (char_traits::copy as havoc + ghost-index equalities)', 'spec/utf_spec.h (oracle written from the Unicode Standard encoding forms and the property\'s list of tolerated forms)',
                  'ghost function PHI (units produced by the input suffix): defined by well-founded recursion; its recurrence is assumed at the visited offset only, side conditions 1<=ADV<=remaining and UNITS<=c*ADV are proved; the induction over steps that lifts per-step facts to whole sequences is a stated meta-argument'],
    assumptions=['per-step (one loop iteration from an arbitrary state satisfying the invariant) facts are machine-checked; "the output is the concatenation of the per-character encodings" follows by induction over steps (not machine-checked)'])
PROPS['C01'] = dict(_common, explanation='every conversion loop: each step consumes exactly one source character (spec reader) and emits exactly its standard encoding in the target form (spec writer), identically in all validation modes; per-character encoders/decoders proved against Table 3-6 / D91 over all 2^32 values; reader-inverts-writer lemmas; the 12 pointer-overload wrappers of st_utf_conv.h pass the whole range, the requested mode and flag to the loops and return exactly what they produce (buffer / std::basic_string / string_view / literal forwards and the wchar_t / char8_t wrappers are not extracted)')
PROPS['C02'] = dict(_common, explanation='validator, repairer, decoder and every conversion loop agree with the structural well-formedness spec on every step; check_validity fails exactly at a unit that cannot stand; other modes substitute and never fail for malformed input')
PROPS['C03'] = dict(_common, explanation='memory safety, termination and two-pass agreement of every conversion loop for unbounded length: reads stay in the source, the convert pass writes exactly the PHI(0) units the measure pass counted into a block of exactly that size, no ST_ASSERT reachable; the 12 pointer-overload wrappers of st_utf_conv.h, over those contracts: size() equals the measured number of units, terminating NUL, storage class by size, early return for empty results, unicode_error exactly when the convert pass fails and then nothing is leaked')

# bounded real-state cross-checks: whole measure+convert vs. the reference transcoding (thorough tier; also used for replay)
unit('utf_bounded', functions=FUNCS, spec=None, harness='harness/utf_all.c', include=['spec/utf_spec.h', 'spec/utf_ghost.h'])
for f in CONVERT:
    job('utf_bounded', 'bounded.' + f, 'hb_' + f, ALL, tier='thorough', kind='bounded', bound='source <= 5 units, all modes', defines=['BOUNDED=5'], unwind=7, solver='kissat', timeout=2400)

def replay_utf(ws, pid, unit_, job_, rec, failed, report):
    import runner
    from checks.registry import UNITS
    name = job_['name'][len('bounded.'):] if job_['name'].startswith('bounded.') else job_['name']
    conv = name if name in CONVERT else None
    if conv is None:
        # a measure function: replay through a conversion that uses it
        for c in CONVERT:
            if c.replace('convert', 'measure') == name: conv = c
        if name == 'utf32_measure_from_utf8': conv = 'utf32_convert_from_utf8'
    if conv is None: return False
    if job_['name'].startswith('bounded.'): brec = rec
    else:
        bj = dict(name='replay.bounded.' + conv, entry='hb_' + conv, defines=['BOUNDED=3'], unwind=5, solver='kissat', timeout=300)
        brec = runner.run_job(ws, UNITS['utf_bounded'], bj, 'quick')
        report['bounded_rerun'] = {'status': brec['status'], 'failed': [o['description'] for o in brec.get('failed', [])], 'bound': 'source <= 3 units', 'detail': brec.get('detail', '')[:500]}
    for ob in brec.get('failed', [])[:3]:
        args = ['fn=' + conv] + replay_inputs_from_trace(ob.get('inputs', {}))
        out = native_replay(ws, 'utf.cpp', args, report)
        if out and out['exit'] != 0: return True
    return False
REPLAY[r'(bounded\.)?(utf8|utf16|utf32|latin_1)_(convert|measure)_from_\w+'] = replay_utf
