"""C10 / C11: format-string scanner, specifier parser, field layout."""
from checks.registry import unit, job, PROPS, REPLAY, native_replay
SINK = ['ST_format_writer_append__pc_sz', 'ST_format_writer_append_char']
INC = ['spec/utf_spec.h', 'harness/format.h']
unit('format', functions=['ST_format_writer_fetch_prefix', 'ST_format_writer_next_format', 'ST_format_writer_parse_format', 'ST_format_spec_ctor__v'], stubs=SINK,
     spec='contracts/format.spec', harness='harness/format.c', include=INC)
job('format', 'fmt.fetch_prefix', 'h_fetch_prefix', ['C10', 'C11'], timeout=1500, solver='cadical',
    expect=[r'ST_format_writer_fetch_prefix\.postcondition\.[1-6]', r'ST_format_writer_fetch_prefix\.step\.1', r'ST_format_writer_fetch_prefix\.loop0\.invariant_step', r'ST_format_writer_fetch_prefix\.loop0\.decreases'])
job('format', 'fmt.parse_format', 'h_parse_format', ['C10', 'C11'], timeout=900,
    expect=[r'ST_format_writer_parse_format\.postcondition\.[1-5]', r'ST_format_writer_parse_format\.step\.1', r'ST_format_writer_parse_format\.loop0\.invariant_step', r'ST_format_writer_parse_format\.loop0\.decreases'])
job('format', 'fmt.spec_default', 'h_spec_default', ['C11'], expect=[r'ST_format_spec_ctor\.postcondition\.1'])
LAYOUT = ['ST_format_string__rformat_spec_rformat_writer_pc_sz_alignment_t', 'stp_format_numeric_string', 'stp_pad_size', 'stp_format_numeric_prefix', 'stp_format_char']
unit('format_layout', functions=LAYOUT, stubs=SINK, spec=None, harness='harness/format.c', include=INC)
L = ['FMT_LAYOUT']
job('format_layout', 'fmt.format_string', 'h_format_string', ['C11', 'C10'], defines=L, expect=[r'ST_format_string\.postcondition\.[12]'])
job('format_layout', 'fmt.format_numeric_string', 'h_format_numeric_string', ['C11', 'C10'], defines=L, expect=[r'stp_format_numeric_string\.postcondition\.[12]'])
job('format_layout', 'fmt.format_char', 'h_format_char', ['C11', 'C10'], defines=L, expect=[r'stp_format_char\.postcondition\.[12]'])
_tb = ['harness/format.h: abstract sink (virtual format_writer::append / append_char): total length + the byte at one arbitrary probe position', 'contracts/prelude.h: strtol stub (value uninterpreted; end pointer within the string; a leading decimal digit is consumed)']
PROPS['C10'] = dict(level='proof',
    explanation='scanner (fetch_prefix / next_format) and specifier parser (parse_format) proved on NUL-terminated format strings of unbounded length and arbitrary bytes, started at any offset: every read is at or before the terminator, the cursor only moves forward, both loops terminate, the only exception is bad_format; the layout functions hand the sink only readable ranges and non-wrapped repeat counts; the only reachable ST_ASSERT on this path is the documented padding-on-character assertion (proved unreachable without width / pad)',
    trusted_base=_tb, assumptions=['argument dispatch (apply_format: std::function array indexed by the parsed argument position) is outside the translated subset', 'text arguments longer than INT_MAX bytes are outside the claim (format_string compares widths in int)'])
PROPS['C11'] = dict(level='proof',
    explanation='literal text: every byte before a field is emitted verbatim and in order, the only byte dropped being the second brace of a doubled brace; specifier parsing: each specifier character sets exactly its field and consumes exactly its characters; field layout proved loop-free for all widths, precisions, sizes and flag combinations against the rendering in the property text (text cut to precision, never truncated by the width, pad side by alignment, zero padding between sign/prefix and digits, prefix none for zero, character class = UTF-8 of the code point or U+FFFD); digits themselves are C12',
    trusted_base=_tb, assumptions=['argument selection (&N / sequential) inside apply_format is outside the translated subset (std::function)'])
