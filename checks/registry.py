"""registry.py: which units / jobs decide which property, at which tier.

A *unit* is a set of functions extracted from /repo (ast2c) + loop/function contracts
(contracts/*.spec) + harness file.  A *job* is one CBMC run on one harness entry.
kind: 'proof'   unbounded (loop-free full domain, or loops closed by invariants)
      'lemma'   loop-free lemma over spec functions / contracts
      'bounded' whole function unwound from real initial states (stand-in / cross-check; never counted as proved)
"""
import os, re, json, subprocess, sys
VERIF = os.path.dirname(os.path.dirname(os.path.abspath(__file__)))
sys.path.insert(0, os.path.join(VERIF, 'tools'))

COMMON_ASSUMPTIONS = [
    'machine model: x86-64 LP64, char signed, wchar_t 32-bit signed, two\'s complement (CBMC --arch x86_64 defaults)',
    'the C text proved is produced mechanically by tools/ast2c.py from clang 14\'s AST of /repo on every run; the translator and clang\'s AST are trusted (DESIGN.md 2.3 lists what the translation drops)',
    'mode B: loops are cut by the splicer (assert INV; havoc; assume INV; one iteration; assume false) with havoc sets from contracts/*.spec; the havoc set must cover every variable the loop body assigns (checked by tools/ast2c.py: assigned-variable scan)',
    'obligation classes "pointer relation" / "pointer arithmetic" are filtered (one-past-the-end style comparisons such as cp + 4 > ep); --unsigned-overflow-check, --conversion-check, --pointer-overflow-check are off (defined behaviour)',
    'sizes are < 2^40 elements (library precondition is < 2^28 for conversions)',
]

PROPS = {}
UNITS = {}
JOBS = []      # (unit name, job dict with 'props': [...], 'tier': 'quick'|'thorough')

def unit(name, **kw):
    kw['name'] = name; UNITS[name] = kw; return kw

def job(unit_name, name, entry, props, tier='quick', kind='proof', **kw):
    j = dict(name=name, entry=entry, props=props, tier=tier, kind=kind, **kw)
    j.setdefault('solver', 'kissat'); j.setdefault('timeout', 1500)
    JOBS.append((unit_name, j)); return j

def jobs_for(pid, tier):
    out = []
    for un, j in JOBS:
        if pid in j['props'] and (j['tier'] == 'quick' or tier == 'thorough'):
            out.append((UNITS[un], j))
    return out

STATIC = {}    # pid -> [callable(ws) -> list of facts]
def static_facts_for(pid, ws):
    out = []
    for f in STATIC.get(pid, []): out += f(ws)
    return out

REPLAY = {}    # job-name regex -> callable(ws, pid, unit, job, rec, failed_obligations, report) -> bool
def replay(ws, pid, unit_, job_, rec, failed, report):
    for pat, fn in REPLAY.items():
        if re.fullmatch(pat, job_['name']):
            return fn(ws, pid, unit_, job_, rec, failed, report)
    return False

# ---------------------------------------------------------------------------------------------
# generic native replay: compile replay/<prog>.cpp against /repo's headers, run with name=value args
# ---------------------------------------------------------------------------------------------
def native_replay(ws, prog, args, report, timeout=20):
    import runner
    exe = os.path.join(ws.dir, 'replay_' + re.sub(r'\W+', '_', prog))
    if not os.path.exists(exe):
        cmd = ['g++', '-std=c++20', '-O1', '-g', '-fsanitize=address,undefined', '-fno-sanitize-recover=undefined', '-I' + os.path.join(runner.REPO, 'include'), '-I' + ws.config_include(),
               '-I' + os.path.join(VERIF, 'spec'), '-I' + os.path.join(VERIF, 'replay'), os.path.join(VERIF, 'replay', prog), '-o', exe]
        p = subprocess.run(cmd, capture_output=True, text=True)
        if p.returncode != 0:
            report['replay_build_error'] = p.stderr[-2000:]; return None
    try:
        p = subprocess.run([exe] + args, capture_output=True, text=True, timeout=timeout)
        out = {'args': args, 'exit': p.returncode, 'stdout': p.stdout[-3000:], 'stderr': p.stderr[-3000:]}
    except subprocess.TimeoutExpired:
        out = {'args': args, 'exit': 'timeout(hang)', 'stdout': '', 'stderr': ''}
    report.setdefault('native_replays', []).append(out)
    return out

def replay_inputs_from_trace(inputs):
    """R_* harness variables of a bounded real-state run -> name=value strings"""
    args = []
    arrays = {}
    for k, v in inputs.items():
        m = re.match(r'^(R_\w+)\[(\d+)l?\]$', k)
        if m:
            arrays.setdefault(m.group(1), {})[int(m.group(2))] = v
        elif re.match(r'^R_\w+$', k) and isinstance(v, (str, int, bool)) and v not in ('array', 'unknown'):
            args.append('%s=%s' % (k, num(v)))
    for name, d in arrays.items():
        n = max(d) + 1
        args.append('%s=%s' % (name, ','.join(str(num(d.get(i, 0))) for i in range(n))))
    return args

def num(v):
    if isinstance(v, bool): return int(v)
    s = str(v).strip()
    m = re.match(r"^'(.)'$", s)
    if m: return ord(m.group(1))
    m = re.match(r"^'\\\\?(.+)'$", s)
    s = re.sub(r'(ul|l|u|ull|ll)$', '', s)
    try: return int(s)
    except Exception:
        try: return int(float(s))
        except Exception: return 0

from checks import c14_c15_codecs, c01_c03_utf, c05_buffer, c06_c07_strpriv, c06_c08_string, c16_sstream, c12_numeric, c10_c11_format, c13_float, c18_failure, c04_c20_static, c17_sinks, c03_wrappers   # noqa: E402 (registers units and jobs)
