"""C12 (integer <-> text) and the parsing half of C13: uint_formatter<T>::format loop contract, its callers over its contract, strto* wrappers."""
from checks.registry import unit, job, PROPS, REPLAY, native_replay
UT = ['uchar', 'ushort', 'uint', 'ulong', 'ulong_long']
FMT = ['ST_uint_formatter_%s_format' % s for s in UT]
AUX = [x % s for s in UT for x in ('ST_uint_formatter_%s_text', 'ST_uint_formatter_%s_size', 'ST_uint_formatter_%s_ctor__v')]
INC = ['harness/numeric.h']
unit('numeric', functions=FMT + AUX, spec='contracts/numeric.spec', harness='harness/numeric_gen.c', include=INC)
unit('numeric_bounded', functions=FMT + AUX, spec=None, harness='harness/numeric_gen.c', include=INC)
FEXP = lambda s: [r'ST_uint_formatter_%s_format\.postcondition\.[1-4]' % s, r'ST_uint_formatter_%s_format\.step\.[12]' % s, r'ST_uint_formatter_%s_format\.loop0\.invariant_step' % s, r'ST_uint_formatter_%s_format\.loop0\.decreases' % s]
# 8/16-bit: radix symbolic over 2..36 in one job.  32/64-bit: one job per radix (a symbolic 64-bit divisor is out of SAT reach: >25 min; a constant one takes 30-70 s);
# quick tier = the radices ST::format uses (2, 8, 10, 16) and the largest (36); thorough tier = all 35 radices, all five instantiations.
job('numeric', 'uf.format.ushort', 'h_uf_format_ushort', ['C12'], timeout=1500, expect=FEXP('ushort'))
job('numeric', 'uf.format.uchar', 'h_uf_format_uchar', ['C12'], tier='thorough', timeout=1500, expect=FEXP('uchar'))
QUICK_RADICES = (2, 8, 10, 16, 36)
for s in ('uint', 'ulong', 'ulong_long'):
    for r in range(2, 37):
        quick = r in QUICK_RADICES and s != 'ulong_long'
        job('numeric', 'uf.format.%s.r%d' % (s, r), 'h_uf_format_' + s, ['C12'], tier='quick' if quick else 'thorough', defines=['FIX_RADIX=%d' % r], timeout=1500, expect=FEXP(s))
for s, d in (('uchar', 8), ('ushort', 16)):
    job('numeric_bounded', 'bounded.uf.format.' + s, 'hb_uf_format_' + s, ['C12'], tier='quick' if s == 'uchar' else 'thorough', kind='bounded',
        bound='complete for this type: loop unwound %d times = its maximum digit count; all values, radices 2..36, both cases symbolic' % d, unwind=d + 2, timeout=1500,
        expect=[r'ST_uint_formatter_%s_format\.bounded\.3' % s])
SI = [('short', 's'), ('int', 'i'), ('long', 'l'), ('long_long', 'll')]
UI = [('ushort', 'us'), ('uint', 'u'), ('ulong', 'ul'), ('ulong_long', 'ull')]
CALLERS = ['stp_mini_format_int_s__i_b_%s' % a for _, a in SI] + ['stp_mini_format_int_u__i_b_%s' % a for _, a in UI] + \
          ['ST_string_from_int__%s_i_b' % a for _, a in SI] + ['ST_string_from_uint__%s_i_b' % a for _, a in UI] + \
          ['stp_format_numeric_s__rformat_spec_rformat_writer_%s' % a for a in ('sc', 's', 'i', 'l', 'll')] + ['stp_format_numeric_u__rformat_spec_rformat_writer_%s' % a for a in ('uc', 'us', 'u', 'ul', 'ull')]
unit('numeric_callers', functions=CALLERS, stubs=FMT + ['stp_format_numeric_string'], spec=None, harness='harness/numeric_gen.c', include=INC)
D = ['NUM_CALLERS']
for n, a in SI:
    job('numeric_callers', 'num.mini_s.' + n, 'h_mini_s_' + n, ['C12'], defines=D, expect=[r'mini_format_int\.postcondition\.[1-5]'])
    job('numeric_callers', 'num.format_s.' + n, 'h_fnum_s_' + n, ['C12'], defines=D, expect=[r'format_numeric\.postcondition\.[1-4]'])
job('numeric_callers', 'num.format_s.signed_char', 'h_fnum_s_signed_char', ['C12'], defines=D, expect=[r'format_numeric\.postcondition\.[1-4]'])
for n, a in UI:
    job('numeric_callers', 'num.mini_u.' + n, 'h_mini_u_' + n, ['C12'], defines=D, expect=[r'mini_format_int\.postcondition\.[1-5]'])
for n in UT:
    job('numeric_callers', 'num.format_u.' + n, 'h_fnum_u_' + n, ['C12'], defines=D, expect=[r'format_numeric\.postcondition\.[1-4]'])
# ---- parsers
PARSE = ['ST_string_to_%s__%s' % (t, v) for t in ('long', 'long_long', 'int', 'short', 'ulong', 'ulong_long', 'uint', 'ushort') for v in ('i_k', 'rconversion_result_i_k')] + \
        ['ST_string_to_%s__%s' % (t, v) for t in ('double', 'float') for v in ('v_k', 'rconversion_result_k')]
unit('numparse', functions=PARSE, spec=None, harness='harness/numparse.c')
for sel, t in enumerate(['long', 'long_long', 'int', 'short', 'ulong', 'ulong_long', 'uint', 'ushort', 'double', 'float']):
    job('numparse', 'parse.to_' + t, 'h_numparse', ['C13'] if t in ('double', 'float') else ['C12'], defines=['NP_SEL=%d' % sel], expect=[r'ST_string_to_number\.postcondition\.[1-7]'])
PROPS['C12'] = dict(level='proof',
    explanation='uint_formatter<T>::format (real loop, loop contract, value/radix/case symbolic): stays inside its buffer, every character is the canonical digit of (remaining value mod radix) with the remaining value divided by the radix each step, no leading zeros, terminated; from_int/from_uint, ST::format\'s integer path and (C16 unit) string_stream insertion are proved to hand the same magnitude |value| - computed without signed overflow, most negative value included - radix and case to that formatter and to emit exactly its text; to_* members return exactly the C library\'s value with ok / full_match as specified. 8- and 16-bit types additionally: text re-parsed by Horner\'s rule equals the value for every value, radix and case (loop fully unwound: complete for those types)',
    trusted_base=['contracts/prelude.h: strtol/strtoll/strtoul/strtoull stubs (value uninterpreted, end pointer within the C string), std::abs precondition (C11 7.22.6.1)',
                  'harness/numeric.h: digit predicates = specification of positional notation'],
    assumptions=['value reconstruction for 32/64-bit types rests on the per-iteration facts (digit = v mod r, v := v div r) plus the textbook induction; the Horner identity itself is machine-checked only for the 8/16-bit types (non-linear arithmetic is out of SAT reach at 32/64 bits)',
                 'what strtol itself computes is the C library\'s business (assumed)'])

def replay_numeric(ws, pid, unit_, job_, rec, failed, report):
    """format / mini / format_numeric harnesses start from real inputs (value, radix, case): the verifier's values replay directly;
    parser harnesses depend on the (assumed) library answer and are not replayed"""
    from checks.registry import num
    parts = job_['name'].split('.')
    if parts[0] == 'parse': return False
    T = parts[2] if len(parts) > 2 else 'int'
    if parts[0] == 'bounded': T = parts[3]
    for ob in failed[:3]:
        inp = ob.get('inputs', {})
        v = inp.get('value', inp.get('v'))
        tries = []
        if v is not None: tries.append((str(num(v)), num(inp.get('radix', 10)), num(inp.get('upper', 0))))
        smin = {'short': -32768, 'int': -2147483648, 'long': -9223372036854775808, 'long_long': -9223372036854775808, 'signed_char': -128}.get(T)
        for r in (10, 16, 2, 8, 36, 35):
            for u in (0, 1):
                for val in ([smin, -1, 0, 1] if smin is not None else [0, 1, 35, 18446744073709551615]): tries.append((str(val), r, u))
        for (val, r, u) in tries:
            out = native_replay(ws, 'numeric.cpp', ['T=' + T, 'V=' + val, 'R=%d' % r, 'U=%d' % u], report)
            if out and out['exit'] != 0:
                report['native_replays'] = report['native_replays'][-1:]; return True
        report['native_replays'] = report.get('native_replays', [])[:2]
    return False
REPLAY[r'(bounded\.)?(uf|num)\..*'] = replay_numeric
