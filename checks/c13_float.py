"""C13: floating-point text (modulo the C library's rendering, which is trusted)."""
from checks.registry import unit, job, PROPS, REPLAY, native_replay
SINK = ['ST_format_writer_append__pc_sz', 'ST_format_writer_append_char']
INC = ['spec/utf_spec.h', 'harness/format.h']
unit('floatfmt', functions=['ST_format_type__rformat_spec_rformat_writer_d', 'ST_format_type__rformat_spec_rformat_writer_f', 'stp_format_double',
                            'ST_float_formatter_double_format', 'ST_float_formatter_float_format', 'ST_string_from_double', 'ST_string_from_float__f_c'],
     stubs=SINK + ['ST_uint_formatter_uint_format'], spec=None, harness='harness/floatfmt.c', include=INC)
job('floatfmt', 'flt.format_type', 'h_format_type_double', ['C13', 'C10'], timeout=900, expect=[r'ST_format_type_double\.postcondition\.[1-5]'])
for sel, nm in enumerate(['formatter_double', 'formatter_float', 'from_double', 'from_float']):
    job('floatfmt', 'flt.' + nm, 'h_float_formatter', ['C13'], defines=['FF_SEL=%d' % sel], timeout=900, expect=[r'ST_float_formatter_format\.postcondition\.[1-5]'])
PROPS['C13'] = dict(level='proof',
    explanation='proof modulo the C library contract: the conversion specification handed to snprintf is exactly %[+][.precision]conv (g f e E by float class) for every precision in int; the value reaches libc unchanged (one symbolic double covers normal, subnormal, zero, inf, NaN: the code never inspects it); the bytes emitted are exactly libc\'s rendering, however long, padded to the width on the side given by the alignment; no rendering length aborts the process or overruns a buffer; from_float/from_double/float_formatter pass %<conv>; to_float/to_double return exactly strtof/strtod\'s value with ok/full_match as specified (jobs parse.to_double / parse.to_float). "Equals printf" is pass-through equality, not an independent model of IEEE-754 printing',
    trusted_base=['contracts/prelude.h lc_snprintf: returns the length r >= 1 of the complete rendering, writes min(r, n-1) bytes + NUL; without an explicit precision r <= 317 (IEEE-754 binary64: %f of -DBL_MAX)', 'contracts/prelude.h lc_strtod / lc_strtof'],
    assumptions=['what printf/strtod compute is the C library\'s business (uninterpreted)', 'string_stream << float/double is append(float_formatter text) by the C16 append contract (AST shape), not separately proved'])

def replay_float(ws, pid, unit_, job_, rec, failed, report):
    """contract-level counterexamples (a rendering length chosen by the libc stub) are turned into real inputs by trying values /
    precisions whose native snprintf rendering is long, plus the verifier's own specification fields"""
    from checks.registry import num
    for ob in failed[:2]:
        inp = ob.get('inputs', {})
        p = num(inp.get('spec.precision', -1)); cls = str(inp.get('spec.float_class', ''))
        conv = 'f' if 'fixed' in cls else 'E' if 'exp_upper' in cls else 'e' if 'float_exp' in cls else 'g'
        s = 1 if str(inp.get('spec.always_signed', '')).upper().startswith('T') else 0
        tries = [('1.5', p, conv, s, num(inp.get('spec.minimum_length', 0)) % 200, 0), ('1e100', -1, 'f', 0, 0, 0), ('-1.7976931348623157e308', -1, 'f', 0, 0, 0), ('3.5', 100, 'f', 0, 0, 0), ('2.5', 70, 'e', 1, 90, 1), ('1e300', -1, 'g', 0, 0, 0)]
        for (v, pp, c, ss, w, a) in tries:
            out = native_replay(ws, 'floatfmt.cpp', ['V=' + v, 'P=%d' % pp, 'C=' + c, 'S=%d' % ss, 'W=%d' % w, 'A=%d' % a], report)
            if out and out['exit'] != 0:
                report['native_replays'] = report['native_replays'][-1:]; return True
        report['native_replays'] = report.get('native_replays', [])[:2]
    return False
REPLAY[r'flt\..*'] = replay_float
