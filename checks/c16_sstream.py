"""C16 (and the stream part of C19 / C18): ST::string_stream — representation invariant, content = concatenation of appends, moves."""
from checks.registry import unit, job, PROPS, REPLAY, native_replay
CORE = ['ST_string_stream_ctor__v', 'ST_string_stream_ctor__xstring_stream', 'ST_string_stream_op_assign__xstring_stream', 'ST_string_stream_dtor',
        'ST_string_stream_append', 'ST_string_stream_append_char', 'ST_string_stream_expand_buffer', 'ST_string_stream_truncate', 'ST_string_stream_erase',
        'ST_string_stream_is_heap', 'ST_string_stream_raw_buffer', 'ST_string_stream_size', 'ST_string_stream_op_shl__pc', 'ST_string_stream_op_shl__c',
        'ST_string_stream_op_shl__rstring', 'ST_string_stream_op_shl__pc8', 'ST_string_stream_to_string',
        'ST_string_stream_op_shl__pwc', 'ST_string_stream_op_shl__pc16', 'ST_string_stream_op_shl__pc32']
STUBS = ['ST_string_from_utf8__pc_sz_utf_validation_t', 'ST_string_from_latin_1__pc_sz', 'ST_wchar_to_utf8__pwc_sz_utf_validation_t',
         'ST_utf16_to_utf8__pc16_sz_utf_validation_t', 'ST_utf32_to_utf8__pc32_sz_utf_validation_t']
unit('sstream', functions=CORE, stubs=STUBS, spec='contracts/sstream.spec', harness='harness/sstream.c')
# callers of expand_buffer verified against its CONTRACT (stub in harness/sstream.c), not its body
unit('sstream_mod', functions=[f for f in CORE if f != 'ST_string_stream_expand_buffer'], stubs=STUBS + ['ST_string_stream_expand_buffer'], spec=None, harness='harness/sstream.c')
P = ['C16']
job('sstream', 'ss.ctor_default', 'h_ss_ctor_default', P, expect=[r'ST_string_stream_ctor_default\.postcondition\.[12]'])
job('sstream', 'ss.dtor', 'h_ss_dtor', P, expect=[r'ST_string_stream_dtor\.postcondition\.1'])
job('sstream', 'ss.expand', 'h_ss_expand', P, expect=[r'ST_string_stream_expand_buffer\.postcondition\.[1-5]', r'ST_string_stream_expand_buffer\.loop0\.invariant_step', r'ST_string_stream_expand_buffer\.loop0\.decreases'])
job('sstream', 'ss.expand.fault', 'h_ss_expand', ['C19'], defines=['FAULT'], expect=[r'ST_string_stream_expand_buffer\.postcondition\.7'])
for sel, nm in enumerate(['append_ptrlen', 'append_cstr', 'shl_cstr', 'shl_string', 'shl_u8', 'append_null']):
    job('sstream_mod', 'ss.' + nm, 'h_ss_append', P, defines=['APPEND_SEL=%d' % sel], expect=[r'ST_string_stream_append\.postcondition\.[1-5]'])
job('sstream_mod', 'ss.append_ptrlen.fault', 'h_ss_append', ['C19'], defines=['APPEND_SEL=0', 'FAULT'], expect=[r'ST_string_stream_append\.postcondition\.7'])
job('sstream_mod', 'ss.append_char', 'h_ss_append_char', P, expect=[r'ST_string_stream_append_char\.postcondition\.[1-5]'])
job('sstream_mod', 'ss.append_char.fault', 'h_ss_append_char', ['C19'], defines=['FAULT'], expect=[r'ST_string_stream_append_char\.postcondition\.6'])
job('sstream', 'ss.truncate_erase', 'h_ss_truncate_erase', P, expect=[r'ST_string_stream_truncate\.postcondition\.1', r'ST_string_stream_erase\.postcondition\.1', r'ST_string_stream_truncate_erase\.postcondition\.[23]'])
job('sstream', 'ss.ctor_move', 'h_ss_ctor_move', P, expect=[r'ST_string_stream_ctor_move\.postcondition\.[1-5]'])
job('sstream', 'ss.assign_move', 'h_ss_assign_move', P, expect=[r'ST_string_stream_assign_move\.postcondition\.[1-5]'])
job('sstream', 'ss.move_then_append', 'h_ss_move_then_append', P, expect=[r'ST_string_stream_move_then_append\.postcondition\.1'])
job('sstream', 'ss.to_string', 'h_ss_to_string', P, expect=[r'ST_string_stream_to_string\.postcondition\.[12]'])
for sel, nm in enumerate(['wchar', 'utf16', 'utf32']):
    job('sstream_mod', 'ss.shl_' + nm, 'h_ss_wide', P + ['C18'], defines=['WIDE_SEL=%d' % sel], expect=[r'ST_string_stream_wide\.postcondition\.[1-5]'])
    job('sstream_mod', 'ss.shl_%s.fault' % nm, 'h_ss_wide', ['C19'], tier='thorough', defines=['WIDE_SEL=%d' % sel, 'FAULT'], expect=[r'ST_string_stream_wide\.postcondition\.5'])
INTS = ['ST_string_stream_op_shl__%s' % a for a in ('i', 'u', 'l', 'ul', 'll', 'ull')]
FSTUBS = ['ST_uint_formatter_%s_format' % t for t in ('uint', 'ulong', 'ulong_long')]
unit('sstream_int', functions=[f for f in CORE if f != 'ST_string_stream_expand_buffer'] + INTS, stubs=STUBS + ['ST_string_stream_expand_buffer'] + FSTUBS, spec=None, harness='harness/sstream.c')
for sel, nm in enumerate(['int', 'uint', 'long', 'ulong', 'long_long', 'ulong_long']):
    job('sstream_int', 'ss.shl_' + nm, 'h_ss_int', P + ['C12'], defines=['SS_INT', 'INT_SEL=%d' % sel], expect=[r'ST_string_stream_int\.postcondition\.[1-5]'])
PROPS['C16'] = dict(level='proof',
    explanation='every string_stream operation (constructors, destructor, append, append_char, growth by doubling, truncate, erase, both moves, to_string, text insertion in every width) is proved for symbolic sizes and capacities over the whole range to preserve the representation invariant (size <= capacity, in-object vs. exclusively owned heap storage), to keep every byte appended earlier (observed at an arbitrary index) and to add exactly the given bytes at the end, with exact heap-block accounting; a moved-from stream is a valid empty stream; histories follow by induction over operations',
    trusted_base=['contracts/prelude.h: st_new_char/st_delete (malloc/free model with live-block counter), char_traits copy/move/assign/length stubs',
                  'harness/sstream.c stubs of ST::string::from_utf8 / from_latin_1 and of the wide-to-UTF-8 converters (arguments recorded; their own contracts are the C01-C03 jobs)'],
    assumptions=['sizes and capacities are < 2^61 bytes (no wrap-around in size + added)', 'appended data does not point into the stream\'s own buffer'])

def replay_sstream(ws, pid, unit_, job_, rec, failed, report):
    """harness states over-approximate reachable streams only in the capacity (any capacity >= 256 instead of 256*2^k); sizes replay directly.
    The native program rebuilds streams of those sizes through the public API, repeats the operation and compares with a std::string model."""
    from checks.registry import num
    nm = job_['name'].split('.')[1]; fault = job_['name'].endswith('.fault')
    op = {'append_ptrlen': 'append', 'append_cstr': 'shl_cstr', 'shl_cstr': 'shl_cstr', 'shl_string': 'shl_string', 'shl_u8': 'shl_cstr', 'append_null': 'append',
          'expand': 'expand', 'append_char': 'append_char', 'truncate_erase': 'truncate_erase', 'ctor_move': 'ctor_move', 'assign_move': 'assign_move',
          'move_then_append': 'move_then_append'}.get(nm)
    if op is None: return False
    for ob in failed[:2]:
        inp = ob.get('inputs', {})
        A = num(inp.get('a0_size', inp.get('s0_size', 0))); B = num(inp.get('m0_size', 0)); N = num(inp.get('n', inp.get('add', inp.get('k', 0))))
        tries = [(A, B, N)] + [(a, b, n) for a in (0, 200, 300, 1000) for b in (0, 5, 300) for n in (1, 100, 400, 600)]     # then the size classes around the 256-byte limit and the doubling steps
        for (a, b, n) in tries:
            args = ['op=' + op, 'A=%d' % a, 'B=%d' % b, 'N=%d' % n] + (['FAIL_AT=1'] if fault else [])
            out = native_replay(ws, 'sstream.cpp', args, report, timeout=30)
            if out and out['exit'] != 0:
                report['native_replays'] = report['native_replays'][-1:]
                return True
        report['native_replays'] = report['native_replays'][:3]
    return False
REPLAY[r'ss\.\w+(\.fault)?'] = replay_sstream
