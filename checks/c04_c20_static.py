"""C04 / C20: supporting static facts read from clang's AST of /repo's working tree (DESIGN.md section 5, C04.3-4 and C20.2).

They are facts about the WHOLE of /repo/include (everything the dump filter `ST` prints), not only the functions under contract:
  S1  no data member of any ST / _ST_PRIVATE class is `mutable`; ST::string has exactly one non-static data member (a char_buffer),
      ST::buffer<T> exactly {m_chars, m_size, m_data}; no static data member is writable
  S2  no const_cast anywhere; no C-style / reinterpret cast removes const from a pointee in a const member function of string / buffer
  S3  every variable with static storage duration (namespace scope, class static, function-local static) is const / constexpr of
      arithmetic, pointer-to-const, array-of-const or empty-class type; none is thread_local or volatile
  S4  the non-const, non-static member functions of ST::string and ST::buffer<T> are exactly the committed list (contracts/mutators.json):
      a const operation cannot change the object, a new mutator must be put under contract first
  S5  const member functions of ST::buffer<T> / ST::string never write through m_chars / m_data (no assignment, ++/--, compound assignment whose
      target is derived from those members; no call passes them as a non-const destination) — C++ const does not protect the heap block
  S6  calls that leave the library go only to the committed allow-list (contracts/externals.json): char_traits, C library number parsing /
      printing, stdio / iostream output, operator new[] / delete[], std::vector<ST::string> — all MT-safe on distinct objects (C20)
A fact that fails is a violation of the property (no input is needed to exhibit it: the offending declaration is the witness).
"""
import json, os, re
from checks.registry import STATIC, PROPS, VERIF, unit, job

def _walk(n, f, stack=()):
    if not isinstance(n, dict): return
    f(n, stack)
    for c in n.get('inner', []) or []:
        _walk(c, f, stack + (n,))

def _loc(n):
    r = n.get('range', {}).get('begin', {}) or n.get('loc', {})
    e = r.get('expansionLoc', r)
    return '%s:%s' % (os.path.basename(e.get('file', '?') or '?'), e.get('line', '?'))

def _records(X):
    return X.ix.records

CONST_OK = re.compile(r'^(const\b|constexpr\b)')

def static_facts(ws):
    X = ws.dump()
    facts = []
    def fact(name, ok, detail, witness=None):
        facts.append({'name': name, 'status': 'SUCCESS' if ok else 'FAILURE', 'detail': detail, 'witness': witness or {}})
    # ---- S1: data members
    mut = []; layouts = {}
    for q, rec in _records(X).items():
        if rec.get('synthetic'): continue
        fields = [c for c in rec.get('inner', []) if c.get('kind') == 'FieldDecl']
        for c in fields:
            if c.get('mutable'): mut.append('%s::%s' % (q, c.get('name')))
        layouts[q] = [(c.get('name'), c.get('type', {}).get('qualType')) for c in fields]
    fact('S1.no-mutable-members', not mut, 'no data member of an ST / _ST_PRIVATE class is declared mutable' + (': ' + ', '.join(mut) if mut else ''), {'mutable': mut})
    sl = layouts.get('ST::string', [])
    fact('S1.string-layout', len(sl) == 1 and sl[0][0] == 'm_buffer' and 'char_buffer' in (sl[0][1] or '') and '*' not in sl[0][1] and '&' not in sl[0][1],
         'ST::string has exactly one non-static data member, a char_buffer held by value (no reference count, no shared representation): %r' % (sl,), {'fields': sl})
    for T in ('char', 'wchar_t', 'char16_t', 'char32_t'):
        bl = layouts.get('ST::buffer<%s>' % T, [])
        fact('S1.buffer-layout<%s>' % T, [f[0] for f in bl] == ['m_chars', 'm_size', 'm_data'], 'ST::buffer<%s> has exactly the members m_chars, m_size, m_data: %r' % (T, bl), {'fields': bl})
    # ---- S2 / S3 / S6: one walk over everything
    const_casts = []; statics_bad = []; statics_ok = []; ext_calls = {}
    def visit(n, stack):
        k = n.get('kind')
        if k == 'CXXConstCastExpr':
            to = n.get('type', {}).get('qualType', ''); frm = (n.get('inner') or [{}])[0].get('type', {}).get('qualType', '')
            if len(re.findall(r'\bconst\b', to)) < len(re.findall(r'\bconst\b', frm)) or not frm: const_casts.append('%s -> %s @%s' % (frm, to, _loc(n)))
        if k == 'VarDecl':
            in_fn = any(s.get('kind') in ('FunctionDecl', 'CXXMethodDecl', 'CXXConstructorDecl', 'CXXDestructorDecl', 'LambdaExpr') for s in stack)
            in_rec = stack and stack[-1].get('kind') in ('CXXRecordDecl', 'ClassTemplateSpecializationDecl')
            is_static = (not in_fn) or n.get('storageClass') == 'static' or bool(n.get('tls'))
            if in_fn and n.get('storageClass') != 'static' and not n.get('tls'): return
            if any(s.get('kind') in ('ClassTemplateDecl', 'FunctionTemplateDecl', 'ClassTemplatePartialSpecializationDecl') for s in stack) and False: return
            t = (n.get('type', {}).get('qualType') or '')
            ok = bool(n.get('constexpr')) or t.startswith('const ') or re.search(r'\bconst\b\s*(\[\d*\])?$', t) is not None
            if '*' in t and not re.search(r'\*\s*const\b', t) and not n.get('constexpr'): ok = False        # pointer variable itself must be const
            if n.get('tls') or 'volatile' in t: ok = False
            ent = '%s %s @%s' % (t, n.get('name'), _loc(n))
            (statics_ok if ok else statics_bad).append(ent)
        if k in ('CallExpr', 'CXXMemberCallExpr', 'CXXOperatorCallExpr'):
            callee = n['inner'][0] if n.get('inner') else {}
            while callee.get('kind') in ('ImplicitCastExpr', 'ParenExpr') and callee.get('inner'): callee = callee['inner'][0]
            rid = None; name = None
            if callee.get('kind') == 'DeclRefExpr': rid = callee['referencedDecl'].get('id'); name = callee['referencedDecl'].get('name')
            elif callee.get('kind') == 'MemberExpr': rid = callee.get('referencedMemberDecl'); name = callee.get('name')
            if rid is not None and rid not in X.ix.funcs and name:
                ext_calls.setdefault(name, 0); ext_calls[name] += 1
    for o in X.objs: _walk(o, visit)
    fact('S2.no-const_cast-removing-const', not const_casts, 'no const_cast in /repo/include casts constness away' + (': ' + ', '.join(const_casts[:5]) if const_casts else ''), {'const_cast': const_casts})
    fact('S3.static-storage-is-constant', not statics_bad, 'every variable with static storage duration (%d found) is const/constexpr, not thread_local, not volatile' % (len(statics_ok) + len(statics_bad)) +
         (': WRITABLE: ' + '; '.join(sorted(set(statics_bad))[:6]) if statics_bad else ''), {'writable': sorted(set(statics_bad))[:20], 'constant': len(set(statics_ok))})
    allow = json.load(open(os.path.join(VERIF, 'contracts', 'externals.json')))
    denied = sorted(n for n in ext_calls if n in allow.get('denied', []))
    unknown = sorted(n for n in ext_calls if n not in allow['allowed'] and n not in allow.get('denied', []))
    fact('S6.no-call-to-a-non-reentrant-library-function', not denied, 'no call to a library function with hidden shared state (%d distinct external callees)' % len(ext_calls) + (': ' + ', '.join(denied) if denied else ''), {'denied_called': denied})
    facts.append({'name': 'S6.external-calls-known', 'status': 'SUCCESS' if not unknown else 'UNDECIDED', 'detail': 'every callee outside the library is on the committed list of functions known to be MT-safe on distinct objects (contracts/externals.json)' + (': NOT LISTED (undecided, not a violation): ' + ', '.join(unknown[:10]) if unknown else ''), 'witness': {'not_listed': unknown}})
    # ---- S4: mutator lists
    want = json.load(open(os.path.join(VERIF, 'contracts', 'mutators.json')))
    for cls in ['ST::string', 'ST::buffer<char>']:
        rec = _records(X).get(cls, {})
        got = set()
        for c in rec.get('inner', []):
            if c.get('kind') == 'FunctionTemplateDecl':
                cands = [i for i in c.get('inner', []) if i.get('kind') == 'CXXMethodDecl']
            else: cands = [c]
            for m in cands:
                if m.get('kind') != 'CXXMethodDecl' or m.get('storageClass') == 'static' or m.get('isImplicit'): continue
                ty = m.get('type', {}).get('qualType', '')
                if re.search(r'\)\s*const\b', ty): continue
                got.add(m.get('name'))
        exp = set(want[cls])
        facts.append({'name': 'S4.mutators<%s>' % cls, 'status': 'SUCCESS' if got <= exp else 'UNDECIDED',
                      'detail': 'every non-const member function of %s is on the committed list %s (each of them is under contract or hands out access to the caller\'s own object)' % (cls, sorted(exp)) + ('' if got <= exp else ': NEW non-const member(s) %s: whether they change the value is not decided (undecided, not a violation) until they are put under contract' % sorted(got - exp)),
                      'witness': {'unexpected': sorted(got - exp), 'removed': sorted(exp - got)}})
    # ---- S5: const members never write through the data pointer
    writes = []
    def derived(n):
        """expression mentions m_chars / m_data / a call to data() / c_str() on this"""
        hit = [False]
        def v(x, st):
            if x.get('kind') == 'MemberExpr' and x.get('name') in ('m_chars', 'm_data', 'm_buffer'): hit[0] = True
        _walk(n, v); return hit[0]
    for cls in [q for q in _records(X) if q == 'ST::string' or q.startswith('ST::buffer<')]:
        rec = _records(X)[cls]
        def scan_method(m):
            ty = m.get('type', {}).get('qualType', '')
            if m.get('kind') != 'CXXMethodDecl' or not re.search(r'\)\s*const\b', ty) or m.get('storageClass') == 'static': return
            def v(x, st):
                k = x.get('kind')
                tgt = None
                if k in ('BinaryOperator', 'CompoundAssignOperator') and (x.get('opcode', '').endswith('=') and x.get('opcode') not in ('==', '!=', '<=', '>=')): tgt = x['inner'][0]
                if k == 'UnaryOperator' and x.get('opcode') in ('++', '--'): tgt = x['inner'][0]
                if tgt is not None:
                    # a write whose target lvalue is *p / p[i] with p derived from the members, or the member itself
                    t = tgt
                    while t.get('kind') in ('ParenExpr', 'ImplicitCastExpr') and t.get('inner'): t = t['inner'][0]
                    if t.get('kind') in ('ArraySubscriptExpr', 'UnaryOperator', 'MemberExpr') and derived(t):
                        writes.append('%s::%s @%s' % (cls, m.get('name'), _loc(x)))
            _walk(m, v)
        for c in rec.get('inner', []):
            if c.get('kind') == 'FunctionTemplateDecl':
                for i in c.get('inner', []): scan_method(i)
            else: scan_method(c)
    fact('S5.const-members-do-not-write-storage', not writes, 'no const member function of ST::string / ST::buffer<T> assigns through m_chars / m_data / m_buffer' + (': ' + '; '.join(sorted(set(writes))[:6]) if writes else ''), {'writes': sorted(set(writes))[:20]})
    return facts

STATIC.setdefault('C04', []).append(static_facts)
STATIC.setdefault('C20', []).append(static_facts)

PROPS['C04'] = dict(level='proof',
    explanation='value semantics decided per operation, not per history: every const operation under contract (find, compare, substr / left / right / trim, before / after, split, tokenize, operator+ with a character or a string) is proved to leave the size, the data pointer and an arbitrary byte of its source and of every argument unchanged, and every string it returns is proved well formed with storage of its own (in-object, or a heap block allocated during the call and distinct from every operand) with exact heap-block accounting; assignment from a buffer and += are proved to change only their target; induction over operations gives "any sequence".  Supporting static facts from clang\'s AST of all of /repo/include: one char_buffer member held by value, no mutable member, no const_cast, const members never assign through m_chars / m_data, the list of non-const members is the committed one',
    trusted_base=['char_traits copy/move/find/compare contracts (prelude.h)', 'leaf search contracts (harness/leaf_stubs.h)', 'std::vector<ST::string> contract (harness/string_split.c)'],
    assumptions=['const operations that are not extracted (iterators, view(), STL / filesystem conversions, to_upper / to_lower, hash, the UTF conversions of a string, replace beyond the bounded check) are covered by the static facts only (reported as static facts, not as proof)',
                 'frames are stated as snapshot-and-compare postconditions at an arbitrary index (mode B); writes to static storage are excluded by static fact S3'],
    technique='function contracts (frame and ownership postconditions) on C extracted mechanically from clang\'s AST of /repo, discharged by CBMC 6.11; supporting static facts read from the same AST')
PROPS['C20'] = dict(level='other',
    explanation='No thread model exists in this family of technique (CBMC contracts are sequential): schedules are NOT explored.  What is decided is the mechanism the property rests on, absence of hidden shared mutable state: (1) static facts over clang\'s AST of all of /repo/include: every variable with static storage duration is const / constexpr (tables, constants), none is thread_local / volatile, no data member is mutable, no const_cast, const members never assign through the data pointer, calls leaving the library go only to a committed allow-list of MT-safe functions; (2) the frame postconditions of C04: const operations leave their object and arguments unchanged.  Threads whose write frames are disjoint from each other\'s read and write frames are data-race free (meta-argument, stated).  A schedule-dependent bug that is not a frame violation is invisible to this check',
    trusted_base=['C and C++ library functions on the allow-list contracts/externals.json are MT-safe on distinct objects'],
    assumptions=['data-race freedom from disjoint frames is a meta-theorem, not machine-checked'],
    technique='static facts from clang\'s AST (no writable static storage, no mutable members, allow-listed external calls) plus frame postconditions of const operations discharged by CBMC 6.11; no exploration of schedules')

# ---- C19: an exception specification must not turn an allocation failure into std::terminate ------------------------------------
NOEXCEPT_ALLOW = {
    'ST::unicode_error::unicode_error': 'std::runtime_error(const char *) is the C++ library\'s own allocation of the exception message, not an allocation of a library operation',
    'ST::codec_error::codec_error': 'as unicode_error', 'ST::bad_format::bad_format': 'as unicode_error',
}
def noexcept_facts(ws):
    """S7: no function declared noexcept contains (transitively, through the library's own functions) a new-expression, a throw, or a call to a
    function that may throw.  The translator's may_throw analysis is reused with the function's own specification ignored.  A function that is
    flagged only because it calls an external function of unknown exception behaviour leaves the fact undecided, not violated."""
    X = ws.dump(); ix = X.ix
    def scan(lenient):
        ix._mt = {}; ix.externals_nothrow = lenient; bad = []; cnt = 0
        for fid, (q, n, cls) in ix.funcs.items():
            ty = n.get('type', {}).get('qualType', '')
            if 'noexcept' not in ty or not ix.has_body(fid) or n.get('synthetic'): continue
            if re.search(r'\bchar_T\b|\btype-parameter\b|\bargs_T\b', ty): continue        # uninstantiated template pattern; its instantiations are listed separately
            cnt += 1
            if any(ix._node_throws(c, (fid,)) for c in n.get('inner', []) if c.get('kind') in ('CompoundStmt', 'CXXCtorInitializer')) and q not in NOEXCEPT_ALLOW:
                bad.append('%s : %s' % (q, ty))
        ix._mt = {}; ix.externals_nothrow = False
        return sorted(set(bad)), cnt
    strict, n_checked = scan(False); definite, _ = scan(True)
    only_unknown = [b for b in strict if b not in definite]
    out = [{'name': 'S7.noexcept-functions-cannot-throw', 'status': 'SUCCESS' if not definite else 'FAILURE',
            'detail': 'none of the %d functions declared noexcept allocates, throws, or calls a library function that may (std::bad_alloc would become std::terminate instead of reaching the caller)' % n_checked + (': ' + '; '.join(definite[:6]) if definite else ''),
            'witness': {'noexcept_but_may_throw': definite[:20], 'allowed': NOEXCEPT_ALLOW}}]
    if only_unknown:
        out.append({'name': 'S7.noexcept-functions-call-only-known-externals', 'status': 'UNDECIDED', 'detail': 'noexcept functions calling an external function of unknown exception behaviour (undecided, not a violation): ' + '; '.join(only_unknown[:6]), 'witness': {'functions': only_unknown[:20]}})
    return out
STATIC.setdefault('C19', []).append(noexcept_facts)
