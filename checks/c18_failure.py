"""C18: a failed operation leaves its target and its arguments unchanged."""
from checks.registry import unit, job, PROPS
from checks.c06_c08_string import LEAF_STUBS, INC
SETF = ['ST::string::set|(const ST::char_buffer &, ST::utf_validation_t)', 'ST::string::set|(ST::char_buffer &&, ST::utf_validation_t)', 'ST::string::_set_utf8|(const char *',
        'ST::string::operator+=|(const ST::string &)', 'ST::string::operator+=|(char32_t)', 'ST::operator+|(const ST::string &, char32_t)', 'ST::operator+|(char32_t, const ST::string &)',
        'ST::operator+|(const ST::string &, const ST::string &)']
unit('string_set', functions=SETF, stubs=LEAF_STUBS + ['stp_validate_utf8', 'stp_cleanup_utf8_buffer'], spec=None, harness='harness/string_set.c', include=INC)
job('string_set', 'str.set_copy', 'h_str_set_copy', ['C18', 'C02'], solver='cadical', timeout=900, expect=[r'ST_string_set\.postcondition\.([1-9]|1[01])'])
job('string_set', 'str.set_move', 'h_str_set_move', ['C18', 'C02'], solver='cadical', timeout=900, expect=[r'ST_string_set\.postcondition\.([1-9]|1[01])'])
for _m, _mn in enumerate(['assume_valid', 'substitute_invalid', 'check_validity']):
    job('string_set', 'str.set_utf8.' + _mn, 'h_str_set_utf8', ['C18', 'C04'], solver='cadical', timeout=1200, defines=['SET_MODE=%d' % _m], expect=[r'ST_string_set_utf8\.postcondition\.[4-7]'] + ([r'ST_string_set_utf8\.postcondition\.[1-3]'] if _m == 2 else []))
job('string_set', 'str.add_c32', 'h_str_add_c32', ['C18', 'C04'], solver='cadical', timeout=900, expect=[r'ST_op_add_c32\.postcondition\.[1-6]'])
job('string_set', 'str.addeq_c32', 'h_str_addeq_c32', ['C18'], solver='cadical', timeout=900, expect=[r'ST_string_op_addeq_c32\.postcondition\.[1-4]'])
job('string_set', 'str.addeq_string', 'h_str_addeq_string', ['C18', 'C04'], solver='cadical', timeout=900, expect=[r'ST_string_op_addeq_string\.postcondition\.[1-4]'])
for _k, _kn in enumerate(['add_c32', 'add_string', 'addeq_c32', 'addeq_string', 'set_copy']):
    job('string_set', 'str.fault.' + _kn, 'h_str_fault', ['C19'], solver='cadical', timeout=900, defines=['FAULT_OP=%d' % _k], expect=[r'ST_string_fault\.postcondition\.[1-6]'])
job('string_set', 'str.set_utf8.self', 'h_str_set_utf8_self', ['C04'], solver='cadical', timeout=900, expect=[r'ST_string_set_utf8_self\.postcondition\.[1-4]'])
SET2 = ['ST::string::string|(ST::char_buffer &&, ST::utf_validation_t)', 'ST::string::string|(const ST::char_buffer &, ST::utf_validation_t)', 'ST::string::set|(const char16_t *, size_t, ST::utf_validation_t)',
        'ST::string::set|(const char32_t *, size_t, ST::utf_validation_t)', 'ST::string::to_buffer|(ST::char_buffer &, bool, bool) const']
unit('string_set2', functions=SET2, stubs=LEAF_STUBS + ['stp_validate_utf8', 'stp_cleanup_utf8_buffer', 'ST_utf16_to_utf8__pc16_sz_utf_validation_t', 'ST_utf32_to_utf8__pc32_sz_utf_validation_t', 'ST_utf8_to_latin_1__pc_sz_utf_validation_t_b', 'stp_latin_1_measure_from_utf8', 'stp_latin_1_convert_from_utf8'], spec=None, harness='harness/string_set2.c', include=INC)
job('string_set2', 'str.ctor_buffer', 'h_str_ctor_buffer', ['C18'], solver='cadical', timeout=900, expect=[r'ST_string_ctor_buffer\.postcondition\.[1-6]'])
job('string_set2', 'str.set_wide', 'h_str_set_wide', ['C18'], solver='cadical', timeout=900, expect=[r'ST_string_set_wide\.postcondition\.[1-5]'])
job('string_set2', 'str.to_buffer', 'h_str_to_buffer', ['C18', 'C04'], solver='cadical', timeout=900, expect=[r'ST_string_to_buffer\.postcondition\.[1-7]'])
PROPS['C18'] = dict(level='proof',
    explanation='validate-then-commit is proved, not assumed, for the operations between the public API and the proved leaves: string::set(const char_buffer&, v), set(char_buffer&&, v), _set_utf8 (behind the const char* constructor / set / operator=), the constructors from a char_buffer (lvalue and rvalue), set(const char16_t* / const char32_t*, size, v), to_buffer(char_buffer&, utf8, substitute), the 12 pointer-overload conversion wrappers of st_utf_conv.h, operator+=(char32_t), operator+=(const string&), operator+(string, char32_t), operator+(char32_t, string): whenever one of them raises unicode_error the target keeps its size, data pointer and an arbitrary byte, the argument (also when passed as an rvalue) keeps its value, the heap-block count is unchanged (temporaries released on the unwinding path, which the translator inserts), and the exception is raised exactly when the validator / encoder reports failure; on success the committed bytes are exactly the validated ones.  string_stream insertion of wchar_t / char16_t / char32_t text (C16 unit): a failed conversion leaves the stream unchanged',
    trusted_base=['validate_utf8 contract stub (harness/utf_stubs.h; the function itself is proved in the UTF unit, C02)', 'cleanup_utf8_buffer contract stub (returns a fresh well-formed buffer)', 'char_traits copy/move contracts (prelude.h)'],
    assumptions=['exceptions are modelled as a status flag with destructor calls inserted by the translator at every exit of a scope (DESIGN.md 2.3)', 'not covered: hex_decode / base64_decode allocating wrappers beyond their C15 codec_error contract, ST::format (bad_format is raised before any output object exists)', 'allocation failure is the subject of C19, not injected here'])
