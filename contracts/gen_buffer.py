#!/usr/bin/env python3
"""gen_buffer.py: generates harness/buffer_gen.c — contracts (PRE set-up / POST assertions) of ST::buffer<T> for the four
element types (C05, C19).  The template below is instantiated with
  {B} C struct / function prefix (ST_buffer_char ...)   {A} parameter-type abbreviation used by ast2c in overload names
  {T} C element type                                   {L} in-object capacity enumerator (value computed by clang)
Generated file is committed; checks do not run this script."""
import os
HERE = os.path.dirname(os.path.abspath(__file__))
INST = [('ST_buffer_char', 'c', 'char', 'char'), ('ST_buffer_wchar_t', 'wc', 'int32_t', 'wchar_t'),
        ('ST_buffer_char16_t', 'c16', 'uint16_t', 'char16_t'), ('ST_buffer_char32_t', 'c32', 'uint32_t', 'char32_t')]

TEMPLATE = r'''
/* ======================================================================= {B} */
#define L_{S} ((size_t){B}_anon_local_length)
/* representation invariant (DESIGN.md C.1): size bound, short contents inside the object, long contents in a heap block of
 * exactly size+1 elements, terminator present */
#define WF_{S}(b) ((b)->m_size < ST_MAXN \
    && ((b)->m_size <  L_{S} ? (b)->m_chars == (b)->m_data : 1) \
    && ((b)->m_size >= L_{S} ? (__CPROVER_DYNAMIC_OBJECT((b)->m_chars) && __CPROVER_POINTER_OFFSET((b)->m_chars) == 0 && __CPROVER_OBJECT_SIZE((b)->m_chars) == ((b)->m_size + 1) * sizeof({T}) && __CPROVER_r_ok((b)->m_chars, ((b)->m_size + 1) * sizeof({T}))) : 1) \
    && (b)->m_chars[(b)->m_size] == 0)
#define OWNS_{S}(b) ((b)->m_size >= L_{S} ? 1 : 0)
/* an arbitrary well-formed buffer: symbolic size, symbolic contents */
static void mk_{S}(struct {B} *b)
{{
    size_t n = nondet_size_t(); __CPROVER_assume(n < ST_MAXN);
    b->m_size = n;
    if (n < L_{S}) {{ b->m_chars = b->m_data; }}
    else {{ b->m_chars = malloc((n + 1) * sizeof({T})); __CPROVER_assume(b->m_chars != NULL); ST_LIVE++; }}
    __CPROVER_assume(b->m_chars[n] == 0);
}}
#define SNAP_{S}(b, pfx) size_t pfx##_size = (b)->m_size; {T} *pfx##_chars = (b)->m_chars; {T} pfx##_at = (GI0 < (b)->m_size) ? (b)->m_chars[GI0] : 0; long pfx##_owns = OWNS_{S}(b)
#define UNCHANGED_{S}(b, pfx) ((b)->m_size == pfx##_size && (b)->m_chars == pfx##_chars && (GI0 >= pfx##_size || (b)->m_chars[GI0] == pfx##_at))

void h_{S}_ctor_default(void)
{{
    buf_ghosts(); struct {B} a; long live0 = ST_LIVE;
    {B}_ctor__v(&a);
    __CPROVER_assert(WF_{S}(&a) && a.m_size == 0, "{B}_ctor_default.postcondition.1: a default-constructed buffer is a valid empty buffer");
    __CPROVER_assert(ST_LIVE == live0 && ST_EXC == 0, "{B}_ctor_default.postcondition.2: allocates nothing, never throws");
}}
void h_{S}_ctor_copy(void)
{{
    buf_ghosts(); struct {B} c; mk_{S}(&c); SNAP_{S}(&c, c0); long live0 = ST_LIVE;
    GI1 = c.m_size;   /* instantiation hint: the stub's element equality is needed at the terminator index */
    struct {B} a;
    {B}_ctor__rbuffer{A}(&a, &c);
    if (ST_EXC == 0) {{
        __CPROVER_assert(WF_{S}(&a), "{B}_ctor_copy.postcondition.1: the copy is a valid buffer");
        __CPROVER_assert(a.m_size == c0_size && (GI0 >= c0_size || a.m_chars[GI0] == c0_at), "{B}_ctor_copy.postcondition.2: the copy has the size and every element of the source");
        __CPROVER_assert(a.m_size < L_{S} || a.m_chars != c.m_chars, "{B}_ctor_copy.postcondition.3: the copy owns its own storage (deep copy)");
        __CPROVER_assert(ST_LIVE == live0 + OWNS_{S}(&a), "{B}_ctor_copy.postcondition.4: exactly one block is allocated for a long value, none for a short one");
    }} else {{
        __CPROVER_assert(ST_EXC == EXC_std_bad_alloc && ST_LIVE == live0, "{B}_ctor_copy.postcondition.5: a failed allocation propagates bad_alloc and leaks nothing");
    }}
    __CPROVER_assert(UNCHANGED_{S}(&c, c0) && WF_{S}(&c), "{B}_ctor_copy.postcondition.6: the source is unchanged");
}}
void h_{S}_ctor_move(void)
{{
    buf_ghosts(); struct {B} m; mk_{S}(&m); SNAP_{S}(&m, m0); long live0 = ST_LIVE;
    GI1 = m.m_size;
    struct {B} a;
    {B}_ctor__xbuffer{A}(&a, &m);
    __CPROVER_assert(ST_EXC == 0 && WF_{S}(&a), "{B}_ctor_move.postcondition.1: the new buffer is valid (never throws)");
    __CPROVER_assert(a.m_size == m0_size && (GI0 >= m0_size || a.m_chars[GI0] == m0_at), "{B}_ctor_move.postcondition.2: the new buffer has the size and every element of the source's old value");
    __CPROVER_assert(WF_{S}(&m), "{B}_ctor_move.postcondition.3: the moved-from buffer is still a valid buffer (readable, assignable, destructible)");
    __CPROVER_assert(!(OWNS_{S}(&m) && OWNS_{S}(&a)) || m.m_chars != a.m_chars, "{B}_ctor_move.postcondition.4: storage is not shared between the two objects");
    __CPROVER_assert(ST_LIVE == live0 && OWNS_{S}(&a) + OWNS_{S}(&m) == m0_owns, "{B}_ctor_move.postcondition.5: no block is leaked, freed or duplicated");
}}
void h_{S}_ctor_ptr(void)
{{
    buf_ghosts(); long live0 = ST_LIVE;
    size_t n = nondet_size_t(); __CPROVER_assume(n < ST_MAXN);
    {T} *d = NULL;
    if (nondet_bool()) {{ d = malloc(n * sizeof({T})); __CPROVER_assume(d != NULL); }} else {{ __CPROVER_assume(n == 0); }}
    {T} d_at = (d != NULL && GI0 < n) ? d[GI0] : 0;
    struct {B} a;
    {B}_ctor__p{A}_sz(&a, d, n);
    if (ST_EXC == 0) {{
        __CPROVER_assert(WF_{S}(&a) && a.m_size == n, "{B}_ctor_ptr.postcondition.1: valid buffer of the requested size");
        __CPROVER_assert(d == NULL || GI0 >= n || a.m_chars[GI0] == d_at, "{B}_ctor_ptr.postcondition.2: holds exactly the given elements");
        __CPROVER_assert(ST_LIVE == live0 + OWNS_{S}(&a), "{B}_ctor_ptr.postcondition.3: one block for a long value, none for a short one");
    }} else __CPROVER_assert(ST_EXC == EXC_std_bad_alloc && ST_LIVE == live0, "{B}_ctor_ptr.postcondition.4: a failed allocation propagates bad_alloc and leaks nothing");
}}
void h_{S}_ctor_fill(void)
{{
    buf_ghosts(); long live0 = ST_LIVE;
    size_t n = nondet_size_t(); __CPROVER_assume(n < ST_MAXN);
    {T} fill = ({T})nondet_unsigned();
    struct {B} a;
    {B}_ctor__sz_{A}(&a, n, fill);
    if (ST_EXC == 0) {{
        __CPROVER_assert(WF_{S}(&a) && a.m_size == n, "{B}_ctor_fill.postcondition.1: valid buffer of the requested size");
        __CPROVER_assert(GI0 >= n || a.m_chars[GI0] == fill, "{B}_ctor_fill.postcondition.2: every element is the fill value");
        __CPROVER_assert(ST_LIVE == live0 + OWNS_{S}(&a), "{B}_ctor_fill.postcondition.3: one block for a long value, none for a short one");
    }} else __CPROVER_assert(ST_EXC == EXC_std_bad_alloc && ST_LIVE == live0, "{B}_ctor_fill.postcondition.4: a failed allocation propagates bad_alloc and leaks nothing");
}}
void h_{S}_dtor(void)
{{
    buf_ghosts(); struct {B} a; mk_{S}(&a); long live0 = ST_LIVE; long owns0 = OWNS_{S}(&a); {T} *p0 = a.m_chars;
    {B}_dtor(&a);
    __CPROVER_assert(ST_LIVE == live0 - owns0, "{B}_dtor.postcondition.1: a long buffer releases exactly its block, a short one releases nothing");
}}
void h_{S}_clear(void)
{{
    buf_ghosts(); struct {B} a; mk_{S}(&a); long live0 = ST_LIVE; long owns0 = OWNS_{S}(&a);
    {B}_clear(&a);
    __CPROVER_assert(WF_{S}(&a) && a.m_size == 0, "{B}_clear.postcondition.1: cleared buffer is a valid empty buffer");
    __CPROVER_assert(ST_LIVE == live0 - owns0 && ST_EXC == 0, "{B}_clear.postcondition.2: releases exactly the old block, never throws");
}}
void h_{S}_assign_copy(void)
{{
    buf_ghosts(); struct {B} a; mk_{S}(&a); struct {B} c; mk_{S}(&c); SNAP_{S}(&c, c0); SNAP_{S}(&a, a0); long live0 = ST_LIVE;
    GI1 = c.m_size;
    {B}_op_assign__rbuffer{A}(&a, &c);
    if (ST_EXC == 0) {{
        __CPROVER_assert(WF_{S}(&a), "{B}_assign_copy.postcondition.1: the target is a valid buffer");
        __CPROVER_assert(a.m_size == c0_size && (GI0 >= c0_size || a.m_chars[GI0] == c0_at), "{B}_assign_copy.postcondition.2: the target has the size and every element of the source");
        __CPROVER_assert(a.m_size < L_{S} || a.m_chars != c.m_chars, "{B}_assign_copy.postcondition.3: the target owns its own storage (deep copy)");
        __CPROVER_assert(ST_LIVE == live0 - a0_owns + OWNS_{S}(&a), "{B}_assign_copy.postcondition.4: the old block is released, at most one new block is allocated");
    }} else {{
        __CPROVER_assert(ST_EXC == EXC_std_bad_alloc, "{B}_assign_copy.postcondition.5: only bad_alloc can be raised");
        __CPROVER_assert(WF_{S}(&a) && (UNCHANGED_{S}(&a, a0) || a.m_size == 0), "{B}_assign_copy.postcondition.6: after a failed allocation the target holds its previous value or an empty value, never a pointer to released storage");
        __CPROVER_assert(ST_LIVE == live0 - a0_owns + OWNS_{S}(&a), "{B}_assign_copy.postcondition.7: a failed allocation leaks nothing and frees nothing twice");
    }}
    __CPROVER_assert(UNCHANGED_{S}(&c, c0) && WF_{S}(&c), "{B}_assign_copy.postcondition.8: the source is unchanged");
}}
void h_{S}_assign_copy_self(void)
{{
    buf_ghosts(); struct {B} a; mk_{S}(&a); SNAP_{S}(&a, a0); long live0 = ST_LIVE;
    {B}_op_assign__rbuffer{A}(&a, &a);
    __CPROVER_assert(ST_EXC == 0 && WF_{S}(&a) && UNCHANGED_{S}(&a, a0) && ST_LIVE == live0, "{B}_assign_copy_self.postcondition.1: self-assignment changes nothing");
}}
void h_{S}_assign_move(void)
{{
    buf_ghosts(); struct {B} a; mk_{S}(&a); struct {B} m; mk_{S}(&m); SNAP_{S}(&m, m0); SNAP_{S}(&a, a0); long live0 = ST_LIVE;
    GI1 = m.m_size; GI2 = a.m_size;   /* instantiation hints: terminator indices of both values */
    {B}_op_assign__xbuffer{A}(&a, &m);
    __CPROVER_assert(ST_EXC == 0 && WF_{S}(&a), "{B}_assign_move.postcondition.1: the target is a valid buffer (never throws)");
    __CPROVER_assert(a.m_size == m0_size && (GI0 >= m0_size || a.m_chars[GI0] == m0_at), "{B}_assign_move.postcondition.2: the target has the size and every element of the source's old value");
    __CPROVER_assert(WF_{S}(&m), "{B}_assign_move.postcondition.3: the moved-from buffer is still a valid, exclusively-owning buffer");
    __CPROVER_assert(!(OWNS_{S}(&m) && OWNS_{S}(&a)) || m.m_chars != a.m_chars, "{B}_assign_move.postcondition.4: storage is not shared between the two objects");
    __CPROVER_assert(ST_LIVE == live0 - a0_owns - m0_owns + OWNS_{S}(&a) + OWNS_{S}(&m), "{B}_assign_move.postcondition.5: no block is leaked or freed twice");
}}
void h_{S}_assign_move_self(void)
{{
    buf_ghosts(); struct {B} a; mk_{S}(&a); SNAP_{S}(&a, a0); long live0 = ST_LIVE;
    GI1 = a.m_size;
    {B}_op_assign__xbuffer{A}(&a, &a);
    __CPROVER_assert(ST_EXC == 0 && WF_{S}(&a) && ST_LIVE == live0 - a0_owns + OWNS_{S}(&a), "{B}_assign_move_self.postcondition.1: self-move leaves a valid, exclusively-owning buffer");
}}
void h_{S}_allocate(void)
{{
    buf_ghosts(); struct {B} a; mk_{S}(&a); SNAP_{S}(&a, a0); long live0 = ST_LIVE;
    size_t n = nondet_size_t(); __CPROVER_assume(n < ST_MAXN);
    {B}_allocate__sz(&a, n);
    if (ST_EXC == 0) {{
        __CPROVER_assert(WF_{S}(&a) && a.m_size == n, "{B}_allocate.postcondition.1: valid buffer of the requested size with terminator");
        __CPROVER_assert(ST_LIVE == live0 - a0_owns + OWNS_{S}(&a), "{B}_allocate.postcondition.2: the old block is released, at most one new block is allocated");
    }} else {{
        __CPROVER_assert(ST_EXC == EXC_std_bad_alloc, "{B}_allocate.postcondition.3: only bad_alloc can be raised");
        __CPROVER_assert(WF_{S}(&a) && (UNCHANGED_{S}(&a, a0) || a.m_size == 0), "{B}_allocate.postcondition.4: after a failed allocation the buffer holds its previous value or an empty value, never a pointer to released storage");
        __CPROVER_assert(ST_LIVE == live0 - a0_owns + OWNS_{S}(&a), "{B}_allocate.postcondition.5: a failed allocation leaks nothing and frees nothing twice");
    }}
}}
void h_{S}_allocate_fill(void)
{{
    buf_ghosts(); struct {B} a; mk_{S}(&a); SNAP_{S}(&a, a0); long live0 = ST_LIVE;
    size_t n = nondet_size_t(); __CPROVER_assume(n < ST_MAXN); {T} fill = ({T})nondet_unsigned();
    {B}_allocate__sz_{A}(&a, n, fill);
    if (ST_EXC == 0) {{
        __CPROVER_assert(WF_{S}(&a) && a.m_size == n, "{B}_allocate_fill.postcondition.1: valid buffer of the requested size with terminator");
        __CPROVER_assert(GI0 >= n || a.m_chars[GI0] == fill, "{B}_allocate_fill.postcondition.2: every element is the fill value");
        __CPROVER_assert(ST_LIVE == live0 - a0_owns + OWNS_{S}(&a), "{B}_allocate_fill.postcondition.3: the old block is released, at most one new block is allocated");
    }} else {{
        __CPROVER_assert(ST_EXC == EXC_std_bad_alloc && WF_{S}(&a) && (UNCHANGED_{S}(&a, a0) || a.m_size == 0) && ST_LIVE == live0 - a0_owns + OWNS_{S}(&a), "{B}_allocate_fill.postcondition.4: after a failed allocation the buffer holds its previous value or an empty value; nothing leaked or freed twice");
    }}
}}
void h_{S}_accessors(void)
{{
    buf_ghosts(); struct {B} a; mk_{S}(&a); SNAP_{S}(&a, a0); long live0 = ST_LIVE;
    __CPROVER_assert({B}_size(&a) == a0_size && {B}_data__v_k(&a) == a0_chars && {B}_data__v(&a) == a0_chars && {B}_c_str__v_k(&a) == a0_chars && {B}_empty(&a) == (a0_size == 0),
        "{B}_accessors.postcondition.1: size(), data(), c_str(), empty() report the stored value");
    __CPROVER_assert({B}_end__v_k(&a) == a0_chars + a0_size && {B}_begin__v_k(&a) == a0_chars, "{B}_accessors.postcondition.2: begin()/end() delimit exactly the elements");
    __CPROVER_assert(UNCHANGED_{S}(&a, a0) && WF_{S}(&a) && ST_LIVE == live0 && ST_EXC == 0, "{B}_accessors.postcondition.3: reading never mutates");
}}
'''

out = ['/* GENERATED by contracts/gen_buffer.py — contracts and proof harnesses of ST::buffer<T> (C05, C19, C04). */',
       '#ifdef FAULT', '#define FAULT_ON 1', '#else', '#define FAULT_ON 0', '#endif', 'static void buf_ghosts(void) { GI0 = nondet_size_t(); GI1 = nondet_size_t(); GI2 = nondet_size_t(); ST_EXC = 0; ST_LIVE = 0; ST_FAULT = FAULT_ON; }', '']
for B, A, T, S in INST:
    out.append(TEMPLATE.format(B=B, A=A, T=T, S=S))
open(os.path.join(HERE, '..', 'harness', 'buffer_gen.c'), 'w').write('\n'.join(out))
OPS = ['ctor_default', 'ctor_copy', 'ctor_move', 'ctor_ptr', 'ctor_fill', 'dtor', 'clear', 'assign_copy', 'assign_copy_self', 'assign_move', 'assign_move_self', 'allocate', 'allocate_fill', 'accessors']
print('wrote harness/buffer_gen.c')
