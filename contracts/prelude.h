/* prelude.h — fixed text put in front of every generated unit.
 *
 * Everything in this file is TRUSTED BASE (DESIGN.md section 4): the exception
 * flag that models C++ `throw`, the allocation stubs that model operator
 * new[]/delete[], and the assumed contracts of std::char_traits / libc calls.
 * The stubs are written as assert-requires / havoc / assume-ensures bodies so
 * that they work both under goto-instrument --dfcc (where their writes are
 * checked against the caller's assigns clause) and on plain CBMC.
 */
#include <stddef.h>
#include <stdint.h>
#include <stdio.h>
#include <stdlib.h>
#include <string.h>
#include <sys/types.h>

/* ---- exceptions become a ghost status flag -------------------------------- */
enum { EXC_none = 0, EXC_ST_unicode_error, EXC_ST_codec_error, EXC_ST_bad_format,
       EXC_std_out_of_range, EXC_std_invalid_argument, EXC_std_bad_alloc, EXC_std_runtime_error };
int ST_EXC;

/* ---- ST_ASSERT: abort() becomes an obligation ------------------------------ */
#define ST_ASSERT_FAIL(msg) do { __CPROVER_assert(0, msg); __CPROVER_assume(0); } while (0)

/* ---- pointer relational operators: both operands point into (or one before / one past) the same array; the translator
 * emits the comparison of their signed byte offsets (flat address model; see DESIGN.md 2.3) ------------------------ */
#ifndef ST_OBJECT_BITS
#define ST_OBJECT_BITS 10      /* must equal cbmc --object-bits (the runner passes both) */
#endif
/* CBMC keeps pointer offsets in 64 - object_bits bits; `base - 1` has all of them set: sign-extend from that width */
#define ST_PTR_OFF(p) (((ssize_t)((size_t)__CPROVER_POINTER_OFFSET(p) << ST_OBJECT_BITS)) >> ST_OBJECT_BITS)

/* ---- ghost state ------------------------------------------------------------
 * GI0, GI1: arbitrary positions ("for every index" in conclusions); the harness
 * sets them to nondeterministic values once.  ST_LIVE counts live heap blocks
 * obtained from st_new_*.  ST_FAULT != 0 lets st_new_* fail (C19 fault mode).   */
size_t GI0, GI1, GI2, GI3;
long ST_LIVE;
int ST_FAULT;
size_t nondet_size_t(void);
int nondet_int(void);
_Bool nondet_bool(void);
unsigned char nondet_uchar(void);
unsigned nondet_unsigned(void);

#define ST_MAXN ((size_t)1 << 40)

/* ---- operator new[] / delete[] ---------------------------------------------- */
void *ST_NEWEST;      /* the block most recently returned by st_new_* (lets the copy stubs address it without aliasing in-object arrays) */
#define ST_NEW(T, name) \
T *name(size_t n) { \
    __CPROVER_assert(n <= ST_MAXN, "st_new.precondition: allocation request is not oversized"); \
    if (ST_FAULT && nondet_bool()) { ST_EXC = EXC_std_bad_alloc; return (T *)0; } \
    T *p = (T *)malloc(n * sizeof(T)); \
    __CPROVER_assume(p != (T *)0); \
    ST_LIVE++; ST_NEWEST = p; \
    return p; \
}
ST_NEW(char, st_new_char)
ST_NEW(uint16_t, st_new_char16_t)
ST_NEW(uint32_t, st_new_char32_t)
ST_NEW(int32_t, st_new_wchar_t)
void st_delete(void *p) {
    __CPROVER_assert(p != (void *)0, "st_delete.precondition: delete[] of a non-null block");
    free(p);
    ST_LIVE--;
}

/* ---- std::char_traits<T> (memcpy / memmove / memset / memcmp / memchr / strlen) --------
 * The copy-like stubs havoc the destination range and re-establish the element
 * equalities at the ghost positions GI0 and GI1 only; that is all a caller can
 * learn, and it is what the real functions guarantee for every position.          */

/* ---- havoc of a destination range d[0..n) for the copy-like stubs.
 * CBMC lowers __CPROVER_havoc_slice on a pointer that MAY point into a fixed-size in-object array of 256 bytes
 * (string_stream::m_stack) into ~2.5 million variables (one symbolic index into an unbounded nondet array per byte, then
 * Ackermann constraints).  A harness may therefore register that array (TR_SMALL / TR_SMALL2) and the heap blocks it created
 * (TR_BIG*); the helper then addresses each candidate object through a pointer whose points-to set is that object only:
 * byte-precise havoc with constant indices for the in-object array, havoc_slice for heap blocks.  Same semantics as
 * havoc_slice(d, n); an unregistered destination is reported as a harness error (undecided), never silently skipped.        */
char *TR_SMALL, *TR_SMALL2; size_t TR_SMALL_N; void *TR_BIG1, *TR_BIG2, *TR_BIG3;
#define HV_B(base, i) if ((size_t)(i) < TR_SMALL_N && (size_t)(i) >= lo && (size_t)(i) < hi) (base)[i] = nd[i];
#define HV_8(base, b) HV_B(base, (b)) HV_B(base, (b) + 1) HV_B(base, (b) + 2) HV_B(base, (b) + 3) HV_B(base, (b) + 4) HV_B(base, (b) + 5) HV_B(base, (b) + 6) HV_B(base, (b) + 7)
#define HV_64(base, b) HV_8(base, (b)) HV_8(base, (b) + 8) HV_8(base, (b) + 16) HV_8(base, (b) + 24) HV_8(base, (b) + 32) HV_8(base, (b) + 40) HV_8(base, (b) + 48) HV_8(base, (b) + 56)
#define HV_256(base) HV_64(base, 0) HV_64(base, 64) HV_64(base, 128) HV_64(base, 192)
static void tr_havoc_small(char *base, char *d, size_t n)
{
    size_t lo = (size_t)__CPROVER_POINTER_OFFSET(d) - (size_t)__CPROVER_POINTER_OFFSET(base), hi = lo + n; char nd[256];
    __CPROVER_assert(TR_SMALL_N <= 256 && lo <= TR_SMALL_N && n <= TR_SMALL_N - lo, "tr_copy/move/assign.precondition: the write stays inside the in-object array");
    HV_256(base)
}
static void tr_havoc_char(char *d, size_t n)
{
    if (TR_SMALL == (char *)0 && TR_BIG1 == (void *)0) { __CPROVER_havoc_slice(d, n); return; }     /* nothing registered: plain havoc */
    if (TR_SMALL != (char *)0 && __CPROVER_same_object(d, TR_SMALL)) tr_havoc_small(TR_SMALL, d, n);
    else if (TR_SMALL2 != (char *)0 && __CPROVER_same_object(d, TR_SMALL2)) tr_havoc_small(TR_SMALL2, d, n);
    else if (ST_NEWEST != (void *)0 && __CPROVER_same_object(d, ST_NEWEST)) __CPROVER_havoc_slice((char *)ST_NEWEST + __CPROVER_POINTER_OFFSET(d), n);
    else if (TR_BIG1 != (void *)0 && __CPROVER_same_object(d, TR_BIG1)) __CPROVER_havoc_slice((char *)TR_BIG1 + __CPROVER_POINTER_OFFSET(d), n);
    else if (TR_BIG2 != (void *)0 && __CPROVER_same_object(d, TR_BIG2)) __CPROVER_havoc_slice((char *)TR_BIG2 + __CPROVER_POINTER_OFFSET(d), n);
    else if (TR_BIG3 != (void *)0 && __CPROVER_same_object(d, TR_BIG3)) __CPROVER_havoc_slice((char *)TR_BIG3 + __CPROVER_POINTER_OFFSET(d), n);
    else { __CPROVER_assert(0, "HARNESS: destination object of a copy stub is not registered (TR_SMALL / TR_BIG*)"); __CPROVER_assume(0); }
}
#define tr_havoc_char16_t(d, n) __CPROVER_havoc_slice(d, (n) * sizeof(uint16_t))
#define tr_havoc_char32_t(d, n) __CPROVER_havoc_slice(d, (n) * sizeof(uint32_t))
#define tr_havoc_wchar_t(d, n) __CPROVER_havoc_slice(d, (n) * sizeof(int32_t))
#define TR_STUBS(T, sfx) \
T *tr_copy_##sfx(T *d, const T *s, size_t n) { \
    __CPROVER_assert(n == 0 || (__CPROVER_r_ok(s, n * sizeof(T)) && __CPROVER_w_ok(d, n * sizeof(T))), "tr_copy.precondition: source readable and destination writable for n elements"); \
    if (n != 0) { \
        T v0 = (GI0 < n) ? s[GI0] : (T)0, v1 = (GI1 < n) ? s[GI1] : (T)0, v2 = (GI2 < n) ? s[GI2] : (T)0, v3 = (GI3 < n) ? s[GI3] : (T)0; \
        tr_havoc_##sfx(d, n); \
        __CPROVER_assume(GI0 < n ==> d[GI0] == v0); __CPROVER_assume(GI1 < n ==> d[GI1] == v1); __CPROVER_assume(GI2 < n ==> d[GI2] == v2); __CPROVER_assume(GI3 < n ==> d[GI3] == v3); \
    } \
    return d; \
} \
T *tr_move_##sfx(T *d, const T *s, size_t n) { \
    __CPROVER_assert(n == 0 || (__CPROVER_r_ok(s, n * sizeof(T)) && __CPROVER_w_ok(d, n * sizeof(T))), "tr_move.precondition: source readable and destination writable for n elements"); \
    if (n != 0) { \
        T v0 = (GI0 < n) ? s[GI0] : (T)0, v1 = (GI1 < n) ? s[GI1] : (T)0, v2 = (GI2 < n) ? s[GI2] : (T)0, v3 = (GI3 < n) ? s[GI3] : (T)0; \
        tr_havoc_##sfx(d, n); \
        __CPROVER_assume(GI0 < n ==> d[GI0] == v0); __CPROVER_assume(GI1 < n ==> d[GI1] == v1); __CPROVER_assume(GI2 < n ==> d[GI2] == v2); __CPROVER_assume(GI3 < n ==> d[GI3] == v3); \
    } \
    return d; \
} \
T *tr_assign_##sfx(T *d, size_t n, T c) { \
    __CPROVER_assert(n == 0 || __CPROVER_w_ok(d, n * sizeof(T)), "tr_assign.precondition: destination writable for n elements"); \
    if (n != 0) { \
        tr_havoc_##sfx(d, n); \
        __CPROVER_assume(GI0 < n ==> d[GI0] == c); __CPROVER_assume(GI1 < n ==> d[GI1] == c); __CPROVER_assume(GI2 < n ==> d[GI2] == c); __CPROVER_assume(GI3 < n ==> d[GI3] == c); \
        __CPROVER_assume(d[0] == c); __CPROVER_assume(d[n - 1] == c); \
    } \
    return d; \
}
#ifndef TR_CONCRETE
TR_STUBS(char, char)
#endif
TR_STUBS(uint16_t, char16_t)
TR_STUBS(uint32_t, char32_t)
TR_STUBS(int32_t, wchar_t)

/* std::min / std::max on size_t: pure */
static inline size_t std_min_ulong(size_t a, size_t b) { return b < a ? b : a; }
static inline size_t std_max_ulong(size_t a, size_t b) { return a < b ? b : a; }

/* ---- char_traits<T>::compare / find / length (memcmp / memchr / strlen) -------------------------------
 * compare: 0 iff the ranges agree; otherwise the sign of the first differing element under char_traits<T>::lt
 * (unsigned char order for char).  The first difference index is exported as witness TRC_W; when the call
 * examines the probe position TRC_PROBE (set by a harness), the witness for that candidate is recorded in
 * TRC_WIT (DESIGN.md section 3, "existential witnesses through stubs").                                   */
#ifdef TR_NO_FACTS   /* forwarding-only jobs: the element facts of compare() are not needed, only WHAT was compared */
#define TR_FACTS 0
#else
#define TR_FACTS 1
#endif
size_t TRC_W, TRC_N, TRC_WIT; int TRC_R, TRC_HIT, TRC_CALLS, TRC_CI /* last element-wise comparison was case-insensitive */; const void *TRC_A, *TRC_B, *TRC_PROBE;
#define TR_CMP(T, UT, sfx) \
int tr_compare_##sfx(const T *a, const T *b, size_t n) { \
    __CPROVER_assert(n == 0 || (__CPROVER_r_ok(a, n * sizeof(T)) && __CPROVER_r_ok(b, n * sizeof(T))), "tr_compare.precondition: both ranges readable for n elements"); \
    int r = nondet_int(); size_t w = nondet_size_t(); \
    if (TRC_CALLS > 0 && !TRC_CI && TRC_A == (const void *)a && TRC_B == (const void *)b && TRC_N == n) { TRC_CALLS++; return TRC_R; }   /* compare() is a function of its arguments */ \
    TRC_CALLS++; \
    if (n == 0) r = 0; \
    if (TR_FACTS) { \
    if (r == 0) { __CPROVER_assume((GI0 < n ==> a[GI0] == b[GI0]) && (GI1 < n ==> a[GI1] == b[GI1]) && (GI2 < n ==> a[GI2] == b[GI2])); w = n; } \
    else { __CPROVER_assume(w < n && a[w] != b[w] && ((r < 0) == ((UT)a[w] < (UT)b[w])) \
           && (GI0 < w ==> a[GI0] == b[GI0]) && (GI1 < w ==> a[GI1] == b[GI1]) && (GI2 < w ==> a[GI2] == b[GI2])); } \
    } \
    TRC_W = w; TRC_N = n; TRC_R = r; TRC_A = a; TRC_B = b; TRC_CI = 0; \
    if ((const void *)a == TRC_PROBE) { TRC_HIT = 1; TRC_WIT = w; } \
    return r; \
}
#ifndef TR_CONCRETE
TR_CMP(char, unsigned char, char)
#endif
TR_CMP(uint16_t, uint16_t, char16_t)
TR_CMP(uint32_t, uint32_t, char32_t)
TR_CMP(int32_t, int32_t, wchar_t)
/* find: first position holding c, or NULL; every earlier position differs (known at the probe pointer TRF_PROBE) */
/* trim: membership of a byte in the character set TRIM_CHARSET is an uninterpreted predicate; find() on that pointer
 * answers it (a C-string character set never contains NUL) */
const char *TRIM_CHARSET; size_t TRIM_L, TRIM_R;
_Bool __CPROVER_uninterpreted_member(char c);
#define IN_SET(c) ((c) != 0 && __CPROVER_uninterpreted_member(c))
const char *TRF_PROBE; const char *TRF_S, *TRF_RET; size_t TRF_N; char TRF_C; unsigned TRF_CALLS;   /* arguments / result of the last call, for forwarding postconditions */
#ifndef TR_CONCRETE
const char *tr_find_char(const char *s, size_t n, char c) {
    __CPROVER_assert(n == 0 || __CPROVER_r_ok(s, n), "tr_find.precondition: range readable for n elements");
    size_t k = nondet_size_t();
    TRF_S = s; TRF_N = n; TRF_C = c; TRF_CALLS++;
    if (n <= 8 && !(TRIM_CHARSET != (const char *)0 && s == TRIM_CHARSET)) {       /* small tables (e.g. the list of valid float conversions): the exact answer, position by position; a registered character set is answered through IN_SET below, whatever its length */
        size_t f = n;
        if (n > 7 && s[7] == c) f = 7; if (n > 6 && s[6] == c) f = 6; if (n > 5 && s[5] == c) f = 5; if (n > 4 && s[4] == c) f = 4;
        if (n > 3 && s[3] == c) f = 3; if (n > 2 && s[2] == c) f = 2; if (n > 1 && s[1] == c) f = 1; if (n > 0 && s[0] == c) f = 0;
        TRF_RET = f < n ? s + f : (const char *)0;
        return TRF_RET;
    }
    _Bool none = nondet_bool() || n == 0;
    if (TRIM_CHARSET != (const char *)0 && s == TRIM_CHARSET) __CPROVER_assume(none == !IN_SET(c));
    if (none) {
        __CPROVER_assume(!(__CPROVER_same_object(TRF_PROBE, s) && TRF_PROBE >= s && TRF_PROBE < s + n) || *TRF_PROBE != c);
        TRF_RET = (const char *)0;
        return (const char *)0;
    }
    __CPROVER_assume(k < n && s[k] == c);
    __CPROVER_assume(!(__CPROVER_same_object(TRF_PROBE, s) && TRF_PROBE >= s && TRF_PROBE < s + k) || *TRF_PROBE != c);
    TRF_RET = s + k;
    return s + k;
}
#endif
/* length: index of the first 0 (the string must be NUL-terminated inside its object) */
const void *TRL_S; size_t TRL_RET; unsigned TRL_CALLS;   /* argument / result of the last length() call */
#define TR_LEN(T, sfx) \
size_t tr_length_##sfx(const T *s) { \
    size_t k = nondet_size_t(); \
    if (TRL_CALLS > 0 && TRL_S == (const void *)s) { TRL_CALLS++; return TRL_RET; }   /* length() is a function of its argument */ \
    TRL_S = s; TRL_CALLS++; \
    __CPROVER_assume(k < ST_MAXN && __CPROVER_r_ok(s, (k + 1) * sizeof(T)) && s[k] == 0); \
    __CPROVER_assume((GI0 < k ==> s[GI0] != 0) && (GI1 < k ==> s[GI1] != 0)); \
    TRL_RET = k; \
    return k; \
}
#ifndef TR_CONCRETE
TR_LEN(char, char)
#endif
#ifdef TR_CONCRETE
/* bounded whole-function jobs (real initial states, loops unwound): char_traits<char> exactly as memcpy / memmove / memset / memcmp /
 * memchr / strlen behave, so every trace is a real execution.  Written WITHOUT loops for up to 16 units (the in-object capacity; the
 * bounded jobs never use more), so that the unwinding bound only has to cover the library's own loops.  A larger count is reported as a
 * harness limit (undecided), never silently truncated.  Never used by a job that is counted as proved. */
#define TRC_LIMIT(n) __CPROVER_assert((n) <= 16, "HARNESS: bounded job uses more than 16 units in a char_traits call")
#define TRC_1(i, S) if ((size_t)(i) < n) { S; }
#define TRC_16(S0, S1, S2, S3, S4, S5, S6, S7, S8, S9, S10, S11, S12, S13, S14, S15) S0 S1 S2 S3 S4 S5 S6 S7 S8 S9 S10 S11 S12 S13 S14 S15
#define TRC_FWD(ST) TRC_1(0, ST(0)) TRC_1(1, ST(1)) TRC_1(2, ST(2)) TRC_1(3, ST(3)) TRC_1(4, ST(4)) TRC_1(5, ST(5)) TRC_1(6, ST(6)) TRC_1(7, ST(7)) TRC_1(8, ST(8)) TRC_1(9, ST(9)) TRC_1(10, ST(10)) TRC_1(11, ST(11)) TRC_1(12, ST(12)) TRC_1(13, ST(13)) TRC_1(14, ST(14)) TRC_1(15, ST(15))
#define TRC_BWD(ST) TRC_1(15, ST(15)) TRC_1(14, ST(14)) TRC_1(13, ST(13)) TRC_1(12, ST(12)) TRC_1(11, ST(11)) TRC_1(10, ST(10)) TRC_1(9, ST(9)) TRC_1(8, ST(8)) TRC_1(7, ST(7)) TRC_1(6, ST(6)) TRC_1(5, ST(5)) TRC_1(4, ST(4)) TRC_1(3, ST(3)) TRC_1(2, ST(2)) TRC_1(1, ST(1)) TRC_1(0, ST(0))
#define TRC_CP(i) d[i] = s[i]
#define TRC_SET(i) d[i] = c
char *tr_copy_char(char *d, const char *s, size_t n) { TRC_LIMIT(n); TRC_FWD(TRC_CP) return d; }
char *tr_move_char(char *d, const char *s, size_t n) { TRC_LIMIT(n); if (!__CPROVER_same_object(d, s) || __CPROVER_POINTER_OFFSET(d) <= __CPROVER_POINTER_OFFSET(s)) { TRC_FWD(TRC_CP) } else { TRC_BWD(TRC_CP) } return d; }
char *tr_assign_char(char *d, size_t n, char c) { TRC_LIMIT(n); TRC_FWD(TRC_SET) return d; }
static void *st_memset16(void *p, int cc, size_t n) { char *d = (char *)p; char c = (char)cc; TRC_LIMIT(n); TRC_FWD(TRC_SET) return p; }
#define memset(p, c, n) st_memset16(p, c, n)
#define TRC_CMP(i) if (!done && (unsigned char)a[i] != (unsigned char)b[i]) { r = (unsigned char)a[i] < (unsigned char)b[i] ? -1 : 1; done = 1; }
int tr_compare_char(const char *a, const char *b, size_t n) { int r = 0; _Bool done = 0; TRC_LIMIT(n); TRC_FWD(TRC_CMP) return r; }
#define TRC_FND(i) if (r == (const char *)0 && s[i] == c) r = s + i
const char *tr_find_char(const char *s, size_t n, char c) { const char *r = (const char *)0; TRC_LIMIT(n); TRC_FWD(TRC_FND) return r; }
#define TRC_LEN(i) if (!done) { if (s[i] == 0) { k = i; done = 1; } }
size_t tr_length_char(const char *s) { size_t k = 0, n = 16; _Bool done = 0; TRC_FWD(TRC_LEN) __CPROVER_assert(done, "HARNESS: bounded job uses a C string of 16 or more bytes"); return k; }
#endif
TR_LEN(uint16_t, char16_t)
TR_LEN(uint32_t, char32_t)
TR_LEN(int32_t, wchar_t)
TR_LEN(unsigned char, unsigned_char)

/* ---- C library: strtol family, strtod/strtof, abs --------------------------------------------------------------
 * Assumed contract (C11 7.22.1): the value is whatever the library computes (uninterpreted: a nondeterministic value
 * recorded in LC so that callers' postconditions can say "returns exactly what the library returned"); *endptr
 * points into [s, s + strlen(s)].  LC_STRLEN is set by the harness to the C-string length of the subject.           */
enum { LC_strtol = 1, LC_strtoll, LC_strtoul, LC_strtoull, LC_strtod, LC_strtof };
struct { int calls; int which; const char *s; int base; _Bool has_end; size_t endoff; long long sret; unsigned long long uret; double dret; float fret; } LC;
size_t LC_STRLEN; const char *LC_BASE;
long long nondet_llong(void); unsigned long long nondet_ullong(void); double nondet_double(void); float nondet_float(void);
static void lc_common(int which, const char *s, char **endp, int base)
{
    __CPROVER_assert(LC_BASE != (const char *)0 || __CPROVER_r_ok(s, LC_STRLEN + 1), "strto*.precondition: the subject is a readable NUL-terminated string");
    __CPROVER_assert(which >= LC_strtod || base == 0 || (base >= 2 && base <= 36), "strto*.precondition: base is 0 or 2..36");
    LC.calls++; LC.which = which; LC.s = s; LC.base = base; LC.has_end = (endp != (char **)0);
    size_t remaining = LC_STRLEN;
    if (LC_BASE != (const char *)0) {       /* subject is the tail of a registered NUL-terminated string (format-string parser) */
        __CPROVER_assert(__CPROVER_same_object(s, LC_BASE) && (size_t)__CPROVER_POINTER_OFFSET(s) <= LC_STRLEN, "strto*.precondition: the subject starts inside the NUL-terminated string (at or before its terminator)");
        remaining = LC_STRLEN - (size_t)__CPROVER_POINTER_OFFSET(s);
    }
    size_t k = nondet_size_t(); __CPROVER_assume(k <= remaining);
    if (which < LC_strtod && base == 10 && remaining > 0 && *s >= '0' && *s <= '9') __CPROVER_assume(k >= 1);    /* a leading decimal digit is always consumed */
    LC.endoff = k;
    if (endp != (char **)0) *endp = (char *)s + k;
}
long lc_strtol(const char *s, char **endp, int base) { lc_common(LC_strtol, s, endp, base); long v = (long)nondet_llong(); LC.sret = v; return v; }
long long lc_strtoll(const char *s, char **endp, int base) { lc_common(LC_strtoll, s, endp, base); long long v = nondet_llong(); LC.sret = v; return v; }
unsigned long lc_strtoul(const char *s, char **endp, int base) { lc_common(LC_strtoul, s, endp, base); unsigned long v = (unsigned long)nondet_ullong(); LC.uret = v; return v; }
unsigned long long lc_strtoull(const char *s, char **endp, int base) { lc_common(LC_strtoull, s, endp, base); unsigned long long v = nondet_ullong(); LC.uret = v; return v; }
double lc_strtod(const char *s, char **endp) { lc_common(LC_strtod, s, endp, 0); double v = nondet_double(); LC.dret = v; return v; }
float lc_strtof(const char *s, char **endp) { lc_common(LC_strtof, s, endp, 0); float v = nondet_float(); LC.fret = v; return v; }
/* abs/labs/llabs: "if the result cannot be represented, the behavior is undefined" (C11 7.22.6.1) */
static inline int std_abs_int(int x) { __CPROVER_assert(x != (-2147483647 - 1), "std::abs.precondition: the absolute value is representable (not the most negative int)"); return x < 0 ? -x : x; }
static inline long std_abs_long(long x) { __CPROVER_assert(x != (-9223372036854775807L - 1), "std::abs.precondition: the absolute value is representable (not the most negative long)"); return x < 0 ? -x : x; }
static inline long long std_abs_long_long(long long x) { __CPROVER_assert(x != (-9223372036854775807LL - 1), "std::abs.precondition: the absolute value is representable (not the most negative long long)"); return x < 0 ? -x : x; }

/* ---- snprintf(buf, n, "%[+][.prec]conv", double): the rendering itself is the C library's (trusted, uninterpreted).
 * Assumed contract (C11 7.21.6.5): returns r >= 1, the length of the complete rendering (however long); writes min(r, n-1) bytes and
 * a terminating NUL into buf[0..n); for a conversion WITHOUT an explicit precision the rendering of an IEEE-754 binary64 value has at
 * most 317 characters ("-" + 309 digits + "." + 6 digits for %f of -DBL_MAX; %e/%g are much shorter).                               */
struct { int calls; char *buf; size_t n; char fmt[32]; double value; int ret; size_t written; char out_at; const char *fmtp; double value0; } SNP;
#define SNP_MAX_NOPREC 317
int lc_snprintf(char *buf, size_t n, const char *fmt, double value)
{
    __CPROVER_assert(n >= 1 && __CPROVER_w_ok(buf, n), "snprintf.precondition: the buffer is writable for n bytes");
    SNP.calls++; SNP.buf = buf; SNP.n = n; SNP.value = value;
    _Bool terminated = 0, has_prec = 0;
    for (int i = 0; i < 32; i++) {
        _Bool inside = (size_t)__CPROVER_POINTER_OFFSET(fmt) + (size_t)i < __CPROVER_OBJECT_SIZE(fmt);
        if (!terminated) { __CPROVER_assert(inside, "snprintf.precondition: the format specification is readable up to its NUL"); if (fmt[i] == '.') has_prec = 1; if (fmt[i] == 0) terminated = 1; }
        SNP.fmt[i] = inside ? fmt[i] : 0;      /* raw bytes of the specification buffer (recorded past the first NUL too, where readable) */
    }
    __CPROVER_assert(terminated, "snprintf.precondition: the format specification is NUL-terminated (within its 32-byte buffer)");
    int r = nondet_int(); __CPROVER_assume(r >= 1);
    if (!has_prec) __CPROVER_assume(r <= SNP_MAX_NOPREC);
    _Bool again = SNP.calls > 1 && SNP.fmtp == fmt && __CPROVER_equal(SNP.value0, value);    /* snprintf is a function of (format, value): a repeated call renders the same text */
    if (again) r = SNP.ret;
    size_t w = (size_t)r < n ? (size_t)r : n - 1;
    if (n <= 64) __CPROVER_havoc_slice(buf, n); else __CPROVER_havoc_slice(buf, w);     /* bytes after the NUL are unspecified */
    if (again && GI2 < SNP.written && GI2 < w) buf[GI2] = SNP.out_at;
    buf[w] = 0;
    SNP.ret = r; SNP.written = w; SNP.out_at = GI2 < w ? buf[GI2] : 0; SNP.fmtp = fmt; SNP.value0 = value;
    return r;
}
