// replay/numeric.cpp — native replay of integer-printer counterexamples (C12) on the REAL headers of /repo (built with UBSan/ASan).
// usage: numeric T=<short|int|long|long_long|ushort|uint|ulong|ulong_long|uchar|signed_char> V=<value as decimal (two's complement accepted)> R=<radix> U=<0|1>
// Prints the value with from_int/from_uint, ST::format and string_stream; compares with an independent reference rendering; parses the text back.
#include <string_theory/string>
#include <string_theory/format>
#include <string_theory/string_stream>
#include <cstdio>
#include <cstring>
#include <map>
#include <string>
#include <cstdlib>
static int fails = 0;
#define CHECK(c, msg) do { if (!(c)) { printf("FAILED %s\n", msg); fails++; } } while (0)
static std::string ref(unsigned long long mag, bool neg, int radix, bool upper)
{
    std::string s; if (mag == 0) s = "0";
    while (mag) { unsigned d = (unsigned)(mag % (unsigned)radix); mag /= (unsigned)radix; s.insert(s.begin(), (char)(d < 10 ? '0' + d : (upper ? 'A' : 'a') + d - 10)); }
    if (neg) s.insert(s.begin(), '-');
    return s;
}
template <class T, class U> static void run_s(long long v, int radix, bool upper)
{
    T value = (T)v; bool neg = value < 0; U mag = neg ? (U)0 - (U)value : (U)value;
    std::string want = ref(mag, neg, radix, upper);
    ST::string a = ST::string::from_int(value, radix, upper);
    CHECK(want == a.c_str(), "from_int renders the canonical digit string"); printf("from_int -> %s (expected %s)\n", a.c_str(), want.c_str());
    ST::conversion_result cr; long long back = a.to_long_long(cr, radix);
    if (sizeof(T) < 8 || true) CHECK(cr.ok() && cr.full_match() && (T)back == value, "the text parses back to the value with ok and full_match");
    if (radix == 10) { ST::string f = ST::format("{}", value); CHECK(want == f.c_str(), "ST::format renders the same digits"); ST::string_stream ss; ss << (sizeof(T) < sizeof(int) ? (int)value : value); CHECK(ss.to_string() == ST::string(want.c_str()), "string_stream renders the same digits"); }
    if (radix == 16) { ST::string f = upper ? ST::format("{X}", value) : ST::format("{x}", value); CHECK(want == f.c_str(), "ST::format renders the same hexadecimal digits"); }
    if (radix == 8) { ST::string f = ST::format("{o}", value); CHECK(want == f.c_str(), "ST::format renders the same octal digits"); }
    if (radix == 2) { ST::string f = ST::format("{b}", value); CHECK(want == f.c_str(), "ST::format renders the same binary digits"); }
}
template <class U> static void run_u(unsigned long long v, int radix, bool upper)
{
    U value = (U)v; std::string want = ref(value, false, radix, upper);
    ST::string a = ST::string::from_uint(value, radix, upper);
    CHECK(want == a.c_str(), "from_uint renders the canonical digit string"); printf("from_uint -> %s (expected %s)\n", a.c_str(), want.c_str());
    ST::conversion_result cr; unsigned long long back = a.to_ulong_long(cr, radix);
    CHECK(cr.ok() && cr.full_match() && (U)back == value, "the text parses back to the value with ok and full_match");
    if (radix == 10) { ST::string f = ST::format("{}", value); CHECK(want == f.c_str(), "ST::format renders the same digits"); }
    if (radix == 16) { ST::string f = upper ? ST::format("{X}", value) : ST::format("{x}", value); CHECK(want == f.c_str(), "ST::format renders the same hexadecimal digits"); }
    if (radix == 8) { ST::string f = ST::format("{o}", value); CHECK(want == f.c_str(), "ST::format renders the same octal digits"); }
    if (radix == 2) { ST::string f = ST::format("{b}", value); CHECK(want == f.c_str(), "ST::format renders the same binary digits"); }
}
int main(int argc, char **argv)
{
    std::map<std::string, std::string> M;
    for (int i = 1; i < argc; i++) { std::string a = argv[i]; size_t e = a.find('='); if (e != std::string::npos) M[a.substr(0, e)] = a.substr(e + 1); }
    std::string T = M["T"]; int radix = atoi(M["R"].c_str()); if (radix < 2 || radix > 36) radix = 10; bool upper = atoi(M["U"].c_str()) != 0;
    unsigned long long uv = strtoull(M["V"].c_str(), 0, 10); long long sv = (M["V"].size() && M["V"][0] == '-') ? strtoll(M["V"].c_str(), 0, 10) : (long long)uv;
    if (T == "short") run_s<short, unsigned short>(sv, radix, upper); else if (T == "int") run_s<int, unsigned int>(sv, radix, upper);
    else if (T == "long") run_s<long, unsigned long>(sv, radix, upper); else if (T == "long_long") run_s<long long, unsigned long long>(sv, radix, upper);
    else if (T == "ushort" || T == "uchar") run_u<unsigned short>(uv, radix, upper); else if (T == "uint") run_u<unsigned int>(uv, radix, upper);
    else if (T == "ulong") run_u<unsigned long>(uv, radix, upper); else run_u<unsigned long long>(uv, radix, upper);
    printf(fails ? "REPLAY: postcondition violated on the real code\n" : "REPLAY: all postconditions hold on this input\n");
    return fails ? 1 : 0;
}
