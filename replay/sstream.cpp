// replay/sstream.cpp — native replay of ST::string_stream counterexamples on the REAL headers of /repo.
// usage: sstream op=<append|append_char|expand|ctor_move|assign_move|move_then_append|truncate_erase|shl_string|shl_cstr|wide> A=<bytes in target> B=<bytes in source> N=<bytes appended> [FAIL_AT=k]
// Checks through the public interface only: size(), raw_buffer() against a std::string model; a hang is reported by alarm().
#include <string_theory/string_stream>
#include <cstdio>
#include <cstring>
#include <map>
#include <string>
#include <cstdlib>
#include <new>
#include <unistd.h>
#include <signal.h>
static long fail_at = 0; static bool armed = false;
void *operator new[](size_t n) { if (armed && fail_at > 0 && --fail_at == 0) throw std::bad_alloc(); void *p = malloc(n ? n : 1); if (!p) throw std::bad_alloc(); return p; }
void operator delete[](void *p) noexcept { free(p); }
void operator delete[](void *p, size_t) noexcept { free(p); }
static int fails = 0;
#define CHECK(c, msg) do { if (!(c)) { printf("FAILED %s\n", msg); fails++; } } while (0)
static void on_alarm(int) { const char m[] = "FAILED operation does not terminate (hang)\nREPLAY: postcondition violated on the real code\n"; (void)!write(1, m, sizeof m - 1); _exit(1); }
static std::string pat(size_t n, unsigned seed) { std::string s(n, ' '); for (size_t i = 0; i < n; i++) s[i] = (char)(1 + (i * 7 + seed) % 100); if (n > 2) s[n / 2] = 0; return s; }
static void fill(ST::string_stream &ss, size_t n, unsigned seed) { std::string p = pat(n, seed); size_t done = 0; while (done < n) { size_t k = std::min<size_t>(100, n - done); ss.append(p.data() + done, k); done += k; } }
static void same(const ST::string_stream &ss, const std::string &model, const char *who)
{
    char msg[200]; snprintf(msg, sizeof msg, "%s: size() and raw_buffer()[0,size()) equal the byte-string model", who);
    CHECK(ss.size() == model.size() && memcmp(ss.raw_buffer(), model.data(), model.size()) == 0, msg);
}
int main(int argc, char **argv)
{
    std::map<std::string, std::string> M;
    for (int i = 1; i < argc; i++) { std::string a = argv[i]; size_t e = a.find('='); if (e != std::string::npos) M[a.substr(0, e)] = a.substr(e + 1); }
    auto clamp = [](size_t v) { return v > 5000 ? (size_t)(5000 + v % 64) : v; };
    size_t A = clamp(strtoull(M["A"].c_str(), 0, 10)), B = clamp(strtoull(M["B"].c_str(), 0, 10)), N = clamp(strtoull(M["N"].c_str(), 0, 10));
    fail_at = atol(M["FAIL_AT"].c_str());
    std::string op = M["op"];
    signal(SIGALRM, on_alarm); alarm(10);
    if (op == "append" || op == "shl_cstr" || op == "shl_string" || op == "expand") {
        ST::string_stream s; fill(s, A, 1); std::string model = pat(A, 1); std::string d = pat(N, 3);
        bool thrown = false; armed = true;
        try {
            if (op == "shl_cstr") { for (auto &c : d) if (c == 0) c = 'z'; s << d.c_str(); }
            else if (op == "shl_string") s << ST::string::from_latin_1(d.data(), d.size());
            else s.append(d.data(), d.size());
        } catch (const std::bad_alloc &) { thrown = true; }
        armed = false;
        if (!thrown) { if (op == "shl_string") { ST::string t = ST::string::from_latin_1(d.data(), d.size()); model.append(t.c_str(), t.size()); } else model += d; }
        else printf("bad_alloc propagated\n");
        same(s, model, thrown ? "stream after a failed allocation" : "stream after append");
        s.append("xyz", 3); model += "xyz"; same(s, model, "stream after a further append");
    } else if (op == "append_char") {
        ST::string_stream s; fill(s, A, 1); std::string model = pat(A, 1);
        bool thrown = false; armed = true; try { s.append_char('q', N); } catch (const std::bad_alloc &) { thrown = true; } armed = false;
        if (!thrown) model.append(N, 'q'); else printf("bad_alloc propagated\n");
        same(s, model, "stream after append_char");
    } else if (op == "truncate_erase") {
        ST::string_stream s; fill(s, A, 1); std::string model = pat(A, 1);
        s.truncate(N); if (N < model.size()) model.resize(N); same(s, model, "stream after truncate");
        s.erase(B); model.resize(B < model.size() ? model.size() - B : 0); same(s, model, "stream after erase");
        s.append("xyz", 3); model += "xyz"; same(s, model, "stream after a further append");
    } else if (op == "ctor_move" || op == "move_then_append") {
        ST::string_stream m; fill(m, B, 3); std::string model = pat(B, 3);
        ST::string_stream a(std::move(m));
        same(a, model, "move-constructed stream");
        CHECK(m.size() == 0, "moved-from stream is empty");
        std::string d = pat(N ? N : 5, 5); m.append(d.data(), d.size()); same(m, d, "moved-from stream after append");
        same(a, model, "move-constructed stream after the source was appended to");
        fill(a, 300, 9); model += pat(300, 9); same(a, model, "move-constructed stream after growth");
        m = std::move(a); same(m, model, "moved-from stream after being assigned to");
    } else if (op == "assign_move") {
        ST::string_stream a; fill(a, A, 1); ST::string_stream m; fill(m, B, 3); std::string model = pat(B, 3);
        a = std::move(m);
        same(a, model, "move-assigned stream");
        CHECK(m.size() == 0, "moved-from stream is empty");
        std::string d = pat(N ? N : 5, 5); m.append(d.data(), d.size()); same(m, d, "moved-from stream after append");
        same(a, model, "move-assigned stream after the source was appended to");
        fill(a, 300, 9); model += pat(300, 9); same(a, model, "move-assigned stream after growth");
    } else { printf("unknown op\n"); return 2; }
    printf(fails ? "REPLAY: postcondition violated on the real code\n" : "REPLAY: all postconditions hold on this input\n");
    return fails ? 1 : 0;
}
