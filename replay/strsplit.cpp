// replay/strsplit.cpp — native replay of C09 counterexamples (bounded whole-function jobs) on the REAL headers of /repo.
// usage: strsplit fn=<replace|split|tokenize> R_s=<b,..> R_sn=<n> R_f=<b,..> R_fn=<n> [R_t=<b,..> R_tn=<n>] [R_ci=<0|1>] [R_max=<n>] [R_form=<0|1|2>]
// The oracle is the same reference implementation as harness/string_split_bounded.c (written from the property text).
// exit 0: the real code agrees with the reference on this input; exit 1: it does not (printed); hang: killed by alarm; sanitizer: crash.
#include <string_theory/string>
#include <cstdio>
#include <cstdlib>
#include <map>
#include <string>
#include <vector>
#include <unistd.h>
static std::map<std::string, std::string> A;
static std::string bytes(const std::string &k, size_t n) {
    std::string v; const std::string &s = A[k]; size_t i = 0;
    while (i < s.size()) { size_t j = s.find(',', i); if (j == std::string::npos) j = s.size(); v.push_back((char)atoi(s.substr(i, j - i).c_str())); i = j + 1; }
    v.resize(n, 0); return v;
}
static char fold(char c) { return (c >= 'A' && c <= 'Z') ? (char)(c + 32) : c; }
static bool match(const std::string &s, size_t at, const std::string &f, bool ci) {
    if (f.size() > s.size() || at > s.size() - f.size()) return false;
    for (size_t i = 0; i < f.size(); i++) if (ci ? fold(s[at + i]) != fold(f[i]) : s[at + i] != f[i]) return false;
    return true;
}
static void show(const char *what, const std::string &s) { printf("%s[%zu]=", what, s.size()); for (unsigned char c : s) printf("%02x ", c); printf("\n"); }
int main(int argc, char **argv)
{
    alarm(10);
    for (int i = 1; i < argc; i++) { std::string a = argv[i]; size_t e = a.find('='); if (e != std::string::npos) A[a.substr(0, e)] = a.substr(e + 1); }
    std::string fn = A["fn"]; size_t sn = strtoull(A["R_sn"].c_str(), 0, 10), fnn = strtoull(A["R_fn"].c_str(), 0, 10), tn = strtoull(A["R_tn"].c_str(), 0, 10);
    bool ci = atoi(A["R_ci"].c_str()) != 0; size_t mx = A.count("R_max") ? strtoull(A["R_max"].c_str(), 0, 10) : (size_t)-1; int form = atoi(A["R_form"].c_str());
    std::string s = bytes("R_s", sn), f = bytes("R_f", fnn), t = bytes("R_t", tn);
    show("text", s); show("pattern", f);
    ST::string S = ST::string::from_validated(s.data(), s.size()), F = ST::string::from_validated(f.data(), f.size()), T = ST::string::from_validated(t.data(), t.size());
    auto cs = ci ? ST::case_insensitive : ST::case_sensitive;
    int fails = 0;
    try {
    if (fn == "replace") {
        std::string exp; size_t i = 0;
        while (i < s.size()) { if (!f.empty() && match(s, i, f, ci)) { exp += t; i += f.size(); } else exp.push_back(s[i++]); }
        ST::string R = S.replace(F, T, cs);
        std::string got(R.c_str(), R.size()); show("expected", exp); show("got", got);
        if (got != exp) { printf("FAILED replace: result differs from the reference\n"); fails++; }
    } else {
        std::vector<std::string> exp;
        if (fn == "split") {
            size_t from = 0, i = 0, cuts = 0;
            while (!f.empty() && cuts < mx && i < s.size()) { if (match(s, i, f, ci)) { exp.push_back(s.substr(from, i - from)); cuts++; i += f.size(); from = i; } else i++; }
            exp.push_back(s.substr(from));
        } else {
            size_t i = 0;
            while (i < s.size()) { if (f.find(s[i]) != std::string::npos) { i++; continue; } size_t j = i; while (j < s.size() && f.find(s[j]) == std::string::npos) j++; exp.push_back(s.substr(i, j - i)); i = j; }
        }
        std::vector<ST::string> got = fn == "tokenize" ? S.tokenize(f.c_str()) : form == 0 ? S.split(F, mx, cs) : form == 1 ? S.split(f.c_str(), mx, cs) : S.split(f[0], mx, cs);
        printf("expected %zu pieces, got %zu\n", exp.size(), got.size());
        if (got.size() != exp.size()) { printf("FAILED %s: number of pieces\n", fn.c_str()); fails++; }
        for (size_t k = 0; k < got.size() && k < exp.size(); k++) if (std::string(got[k].c_str(), got[k].size()) != exp[k]) { printf("FAILED %s: piece %zu differs\n", fn.c_str(), k); fails++; }
    }
    } catch (const ST::unicode_error &e) { printf("unicode_error: %s (pieces / result rejected as UTF-8; not a disagreement)\n", e.what()); }
    return fails ? 1 : 0;
}
