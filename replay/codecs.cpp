// replay/codecs.cpp — native replay of codec counterexamples on the REAL headers of /repo.
// usage: codecs fn=<b64_decode|hex_decode|b64_encode|hex_encode> R_N=<n> R_IN=<b0,b1,...> [R_OSZ=<n> R_HASOUT=<0|1>]
// Evaluates the same oracle (spec/codecs_spec.h) as the CBMC postconditions, for every index.
// exit 0: all postconditions hold on this input; exit 1: a postcondition fails (printed); sanitizer/abort: crash.
#include <string_theory/codecs>
#include <cstdio>
#include <cstring>
#include <map>
#include <string>
#include <vector>
#include <cstdlib>
#define size_t_GK_DEFINED
#include "codecs_spec_native.h"

static std::map<std::string, std::string> A;
static std::vector<unsigned char> bytes(const std::string &k) {
    std::vector<unsigned char> v; const std::string &s = A[k]; size_t i = 0;
    while (i < s.size()) { size_t j = s.find(',', i); if (j == std::string::npos) j = s.size(); v.push_back((unsigned char)atoi(s.substr(i, j - i).c_str())); i = j + 1; }
    return v;
}
static int fails = 0;
#define CHECK(c, msg) do { if (!(c)) { printf("FAILED %s\n", msg); fails++; } } while (0)

int main(int argc, char **argv)
{
    for (int i = 1; i < argc; i++) { std::string a = argv[i]; size_t e = a.find('='); if (e != std::string::npos) A[a.substr(0, e)] = a.substr(e + 1); }
    std::string fn = A["fn"];
    size_t n = strtoull(A["R_N"].c_str(), 0, 10);
    std::vector<unsigned char> inb = bytes("R_IN"); inb.resize(n + 1); inb[n] = 0;
    const unsigned char *in = inb.data();
    size_t osz = strtoull(A["R_OSZ"].c_str(), 0, 10); bool hasout = atoi(A["R_HASOUT"].c_str()) != 0;
    if (fn == "b64_decode" || fn == "hex_decode") {
        ST::string s = ST::string::from_validated((const char *)in, n);
        unsigned char *out = hasout ? (unsigned char *)malloc(osz ? osz : 1) : nullptr;   // exact-size heap block: ASan sees any overrun
        if (out && osz == 0) { free(out); out = (unsigned char *)malloc(1); }
        ST_ssize_t r = fn == "b64_decode" ? _ST_PRIVATE::b64_decode(s, out, osz) : _ST_PRIVATE::hex_decode(s, out, osz);
        printf("%s(n=%zu, out=%s, osz=%zu) = %zd\n", fn.c_str(), n, out ? "buf" : "null", osz, (ssize_t)r);
        if (fn == "b64_decode") {
            CHECK(out != NULL || r == ((n & 3) != 0 ? -1 : (ST_ssize_t)B64_DECLEN(n, in)), "postcondition.1 null output returns implied length");
            CHECK(out == NULL || r == -1 || ((n & 3) == 0 && r == (ST_ssize_t)B64_DECLEN(n, in) && (size_t)r <= osz), "postcondition.2 -1 or implied length <= output_size");
            bool valid = (n & 3) == 0;
            for (size_t i = 0; i < n; i++) { if (!B64_VALID_AT(in, n, i)) valid = false; }
            if (out && r >= 0) for (size_t i = 0; i < n; i++) CHECK(B64_VALID_AT(in, n, i), "postcondition.3 success implies valid");
            if (out && r >= 0) for (size_t g = 0; g * 3 < (size_t)r; g++) {
                const unsigned char *q = in + 4 * g;
                CHECK(out[3 * g] == B64_DEC0(q), "postcondition.4 byte 0");
                if (3 * g + 1 < (size_t)r) CHECK(out[3 * g + 1] == B64_DEC1(q), "postcondition.5 byte 1");
                if (3 * g + 2 < (size_t)r) CHECK(out[3 * g + 2] == B64_DEC2(q), "postcondition.6 byte 2");
            }
            if (out && valid && B64_DECLEN(n, in) <= osz) CHECK(r >= 0, "postcondition.7 valid input accepted");
        } else {
            CHECK(out != NULL || r == ((n & 1) != 0 ? -1 : (ST_ssize_t)(n >> 1)), "postcondition.1 null output returns size/2");
            CHECK(out == NULL || r == -1 || ((n & 1) == 0 && r == (ST_ssize_t)(n >> 1) && (size_t)r <= osz), "postcondition.2 -1 or size/2 <= output_size");
            bool valid = (n & 1) == 0;
            for (size_t i = 0; i < n; i++) if (HEXVAL(in[i]) < 0) valid = false;
            if (out && r >= 0) for (size_t i = 0; i < n; i++) CHECK(HEXVAL(in[i]) >= 0, "postcondition.3 success implies hexadecimal digits");
            if (out && r >= 0) for (size_t g = 0; g < (size_t)r; g++) CHECK(out[g] == (unsigned char)((HEXVAL(in[2 * g]) << 4) | HEXVAL(in[2 * g + 1])), "postcondition.4 byte value");
            if (out && valid && (n >> 1) <= osz) CHECK(r >= 0, "postcondition.5 valid input accepted");
        }
        free(out);
    } else if (fn == "b64_encode" || fn == "hex_encode") {
        unsigned char *data = (unsigned char *)malloc(n ? n : 1); memcpy(data, in, n);
        if (n == 0) { free(data); data = (unsigned char *)malloc(1); }
        // exact-size input block so that ASan reports reads past the array
        unsigned char *exact = (unsigned char *)malloc(n ? n : 1); memcpy(exact, in, n);
        size_t olen = fn == "b64_encode" ? 4 * ((n + 2) / 3) : 2 * n;
        char *out = (char *)malloc(olen + 1); out[olen] = 0x5a;
        if (fn == "b64_encode") _ST_PRIVATE::b64_encode(out, n ? exact : exact, n); else _ST_PRIVATE::hex_encode(out, exact, n);
        CHECK(out[olen] == 0x5a, "postcondition: exactly the promised number of characters is written");
        if (fn == "b64_encode") for (size_t g = 0; 3 * g < n; g++) {
            size_t rem = n - 3 * g; if (rem > 3) rem = 3; const unsigned char *p = data + 3 * g;
            CHECK(out[4 * g] == B64_ENC0(p, rem), "postcondition.1 char 0"); CHECK(out[4 * g + 1] == B64_ENC1(p, rem), "postcondition.2 char 1");
            CHECK(out[4 * g + 2] == B64_ENC2(p, rem), "postcondition.3 char 2"); CHECK(out[4 * g + 3] == B64_ENC3(p, rem), "postcondition.4 char 3");
        } else for (size_t g = 0; g < n; g++) CHECK(out[2 * g] == HEXCHAR(data[g] >> 4) && out[2 * g + 1] == HEXCHAR(data[g] & 15), "postcondition.1 two lower-case digits per byte");
        free(out); free(data); free(exact);
    } else { printf("unknown fn\n"); return 2; }
    printf(fails ? "REPLAY: postcondition violated on the real code\n" : "REPLAY: all postconditions hold on this input\n");
    return fails ? 1 : 0;
}
