// replay/buffer.cpp — native replay of ST::buffer<T> counterexamples on the REAL headers of /repo.
// usage: buffer T=<char|wchar_t|char16_t|char32_t> op=<ctor_copy|ctor_move|assign_copy|assign_move|assign_move_self|assign_copy_self|allocate|allocate_fill|clear|ctor_ptr|ctor_fill> A=<size of target> B=<size of source> N=<requested size>
// Checks, through the public interface only, the representation invariant the contracts state:
// size, content, terminator, short contents inside the object / long contents outside, no sharing, and (under ASan) no leak / double free.
#include <string_theory/char_buffer>
#include <cstdio>
#include <cstring>
#include <map>
#include <string>
#include <cstdlib>
#include <new>
// fault injection for C19 replays: FAIL_AT=k makes the k-th array allocation after arming throw std::bad_alloc
static long fail_at = 0; static bool armed = false;
void *operator new[](size_t n) { if (armed && fail_at > 0 && --fail_at == 0) throw std::bad_alloc(); void *p = malloc(n ? n : 1); if (!p) throw std::bad_alloc(); return p; }
void operator delete[](void *p) noexcept { free(p); }
void operator delete[](void *p, size_t) noexcept { free(p); }
static int fails = 0;
#define CHECK(c, msg) do { if (!(c)) { printf("FAILED %s\n", msg); fails++; } } while (0)
template <class T> static bool inside(const ST::buffer<T> &b, const T *p) { const char *o = reinterpret_cast<const char *>(&b); const char *q = reinterpret_cast<const char *>(p); return q >= o && q < o + sizeof(b); }
template <class T> static size_t limit() { return (ST_MAX_SSO_LENGTH * sizeof(T)) > ST_MAX_SSO_SIZE ? (ST_MAX_SSO_SIZE / sizeof(T)) : ST_MAX_SSO_LENGTH; }
template <class T> static ST::buffer<T> make(size_t n, unsigned seed) { ST::buffer<T> b; b.allocate(n); for (size_t i = 0; i < n; i++) b[i] = (T)(1 + (i * 7 + seed) % 100); return b; }
template <class T> static void wf(const ST::buffer<T> &b, const char *who)
{
    char msg[200];
    snprintf(msg, sizeof msg, "%s: terminator after the last element", who); CHECK(b.data()[b.size()] == 0, msg);
    snprintf(msg, sizeof msg, "%s: short contents live inside the object, long contents outside", who); CHECK((b.size() < limit<T>()) == inside(b, b.data()), msg);
}
template <class T> static void same(const ST::buffer<T> &b, size_t n, unsigned seed, const char *who)
{
    char msg[200]; snprintf(msg, sizeof msg, "%s: size and every element of the expected value", who);
    bool ok = b.size() == n; for (size_t i = 0; ok && i < n; i++) ok = b.data()[i] == (T)(1 + (i * 7 + seed) % 100);
    CHECK(ok, msg);
}
template <class T> static int run(const std::string &op, size_t A, size_t B, size_t N)
{
    if (op == "ctor_copy") { auto c = make<T>(B, 3); ST::buffer<T> a(c); wf(a, "copy"); same(a, B, 3, "copy"); wf(c, "source"); same(c, B, 3, "source"); CHECK(B < limit<T>() || a.data() != c.data(), "deep copy"); }
    else if (op == "ctor_move") { auto m = make<T>(B, 3); ST::buffer<T> a(std::move(m)); wf(a, "target"); same(a, B, 3, "target"); wf(m, "moved-from"); CHECK(!inside(a, m.data()) && (m.size() < limit<T>() || m.data() != a.data()), "moved-from does not share storage with the target");
        m = make<T>(A, 5); wf(m, "moved-from after reassignment"); same(m, A, 5, "moved-from after reassignment"); same(a, B, 3, "target after the source was reassigned"); }
    else if (op == "assign_copy" && fail_at > 0) { auto a = make<T>(A, 1); auto c = make<T>(B, 3); bool thrown = false; armed = true; try { a = c; } catch (const std::bad_alloc &) { thrown = true; } armed = false;
        if (thrown) { printf("bad_alloc propagated\n"); wf(a, "target after failed allocation"); CHECK(a.size() == 0 || a.size() == A, "target holds its previous value or an empty value"); a = make<T>(N, 5); same(a, N, 5, "target reassigned after failure"); } }
    else if ((op == "allocate" || op == "allocate_fill") && fail_at > 0) { auto a = make<T>(A, 1); bool thrown = false; armed = true; try { if (op == "allocate") a.allocate(N); else a.allocate(N, (T)42); } catch (const std::bad_alloc &) { thrown = true; } armed = false;
        if (thrown) { printf("bad_alloc propagated\n"); wf(a, "target after failed allocation"); CHECK(a.size() == 0 || a.size() == A, "target holds its previous value or an empty value"); a = make<T>(B, 5); same(a, B, 5, "target reassigned after failure"); } }
    else if (op == "assign_copy") { auto a = make<T>(A, 1); auto c = make<T>(B, 3); a = c; wf(a, "target"); same(a, B, 3, "target"); wf(c, "source"); same(c, B, 3, "source"); }
    else if (op == "assign_copy_self") { auto a = make<T>(A, 1); auto &r = a; a = r; wf(a, "target"); same(a, A, 1, "target"); }
    else if (op == "assign_move") { auto a = make<T>(A, 1); auto m = make<T>(B, 3); a = std::move(m); wf(a, "target"); same(a, B, 3, "target"); wf(m, "moved-from");
        CHECK(!inside(a, m.data()) && (m.size() < limit<T>() || m.data() != a.data()), "moved-from does not share storage with the target");
        m = make<T>(N, 5); wf(m, "moved-from after reassignment"); same(m, N, 5, "moved-from after reassignment"); wf(a, "target after the source was reassigned"); same(a, B, 3, "target after the source was reassigned"); }
    else if (op == "assign_move_self") { auto a = make<T>(A, 1); auto &r = a; a = std::move(r); wf(a, "target"); }
    else if (op == "allocate") { auto a = make<T>(A, 1); a.allocate(N); CHECK(a.size() == N, "size"); wf(a, "target"); }
    else if (op == "allocate_fill") { auto a = make<T>(A, 1); a.allocate(N, (T)42); CHECK(a.size() == N, "size"); wf(a, "target"); for (size_t i = 0; i < N; i++) if (a[i] != (T)42) { CHECK(false, "fill value"); break; } }
    else if (op == "clear") { auto a = make<T>(A, 1); a.clear(); CHECK(a.size() == 0, "size"); wf(a, "target"); }
    else if (op == "ctor_ptr") { auto s = make<T>(N, 3); ST::buffer<T> a(s.data(), N); wf(a, "target"); same(a, N, 3, "target"); }
    else if (op == "ctor_fill") { ST::buffer<T> a(N, (T)42); CHECK(a.size() == N, "size"); wf(a, "target"); for (size_t i = 0; i < N; i++) if (a[i] != (T)42) { CHECK(false, "fill value"); break; } }
    else if (op == "ctor_default") { ST::buffer<T> a; CHECK(a.size() == 0, "size"); wf(a, "target"); }
    else { printf("unknown op\n"); return 2; }
    return 0;
}
int main(int argc, char **argv)
{
    std::map<std::string, std::string> M;
    for (int i = 1; i < argc; i++) { std::string a = argv[i]; size_t e = a.find('='); if (e != std::string::npos) M[a.substr(0, e)] = a.substr(e + 1); }
    size_t A = strtoull(M["A"].c_str(), 0, 10), B = strtoull(M["B"].c_str(), 0, 10), N = strtoull(M["N"].c_str(), 0, 10);
    // sizes from the verifier are symbolic up to 2^40; only their class relative to the in-object limit matters: clamp to a replayable size
    auto clamp = [](size_t v) { return v > 4096 ? (size_t)4096 : v; }; A = clamp(A); B = clamp(B); N = clamp(N);
    fail_at = atol(M["FAIL_AT"].c_str());
    std::string T = M["T"], op = M["op"]; int rc;
    if (T == "char") rc = run<char>(op, A, B, N); else if (T == "wchar_t") rc = run<wchar_t>(op, A, B, N);
    else if (T == "char16_t") rc = run<char16_t>(op, A, B, N); else rc = run<char32_t>(op, A, B, N);
    if (rc) return rc;
    printf(fails ? "REPLAY: postcondition violated on the real code\n" : "REPLAY: all postconditions hold on this input\n");
    return fails ? 1 : 0;
}
