// replay/floatfmt.cpp — native replay of floating-point formatting counterexamples (C13) on the REAL headers of /repo.
// usage: floatfmt V=<double as %a or decimal> P=<precision or -1> C=<g|f|e|E> S=<0|1 sign flag> W=<width> A=<0 default|1 left|2 right>
// Compares ST::format / from_double / string_stream with the C library's printf for the same conversion; an abort is visible as the exit status.
#include <string_theory/format>
#include <string_theory/string_stream>
#include <cstdio>
#include <cstdlib>
#include <map>
#include <string>
static int fails = 0;
#define CHECK(c, msg) do { if (!(c)) { printf("FAILED %s\n", msg); fails++; } } while (0)
int main(int argc, char **argv)
{
    std::map<std::string, std::string> M;
    for (int i = 1; i < argc; i++) { std::string a = argv[i]; size_t e = a.find('='); if (e != std::string::npos) M[a.substr(0, e)] = a.substr(e + 1); }
    double v = strtod(M["V"].c_str(), nullptr); int prec = M.count("P") ? atoi(M["P"].c_str()) : -1; char conv = M.count("C") ? M["C"][0] : 'g';
    bool sign = atoi(M["S"].c_str()) != 0; int width = atoi(M["W"].c_str()); int al = atoi(M["A"].c_str());
    if (prec > 2000) prec = 2000; if (width > 4000) width = 4000; if (width < 0) width = 0;
    std::string pf = "%"; if (sign) pf += "+"; if (prec >= 0) pf += "." + std::to_string(prec); pf += conv;
    std::string ref(8192, 0); int n = snprintf(&ref[0], ref.size(), pf.c_str(), v); ref.resize(n);
    std::string padded = ref; if ((int)padded.size() < width) { if (al == 1) padded.append(width - padded.size(), ' '); else padded.insert(0, width - padded.size(), ' '); }
    std::string sf = "{"; if (al == 1) sf += "<"; if (al == 2) sf += ">"; if (sign) sf += "+"; if (width) sf += std::to_string(width); if (prec >= 0) sf += "." + std::to_string(prec); if (conv != 'g') sf += conv; sf += "}";
    printf("ST::format(\"%s\", %a) vs printf(\"%s\") [%d chars]\n", sf.c_str(), v, pf.c_str(), n);
    ST::string out = ST::format(sf.c_str(), v);
    CHECK(padded == out.c_str(), "ST::format renders exactly what printf renders, padded to the width");
    if (prec < 0 && !sign) { ST::string fd = ST::string::from_double(v, conv); CHECK(ref == fd.c_str(), "from_double gives the printf rendering"); }
    if (prec < 0 && !sign && conv == 'g') { ST::string_stream ss; ss << v; CHECK(ST::string(ref.c_str()) == ss.to_string(), "string_stream gives the %g rendering"); }
    printf(fails ? "REPLAY: postcondition violated on the real code\n" : "REPLAY: all postconditions hold on this input\n");
    return fails ? 1 : 0;
}
