// replay/utf.cpp — native replay of conversion counterexamples on the REAL headers of /repo.
// usage: utf fn=<xxx_convert_from_yyy> R_N=<n> R_IN=<u0,u1,...> R_MODE=<0 assume_valid|1 substitute_invalid|2 check_validity> R_SUB=<0|1>
// Runs the real measure + convert functions on exact-size heap blocks (ASan) and compares with the reference
// transcoding computed from spec/utf_spec.h.  exit 0: agrees; exit 1: postcondition violated; crash: abort/overrun.
#include <string_theory/string>
#include <cstdio>
#include <cstring>
#include <map>
#include <string>
#include <vector>
#include <cstdlib>
#include "utf_spec.h"
static int fails = 0;
#define CHECK(c, msg) do { if (!(c)) { printf("FAILED %s\n", msg); fails++; } } while (0)
#include "utf_gen.inc"
int main(int argc, char **argv)
{
    std::map<std::string, std::string> A;
    for (int i = 1; i < argc; i++) { std::string a = argv[i]; size_t e = a.find('='); if (e != std::string::npos) A[a.substr(0, e)] = a.substr(e + 1); }
    std::vector<unsigned> in; { const std::string &s = A["R_IN"]; size_t i = 0; while (i < s.size()) { size_t j = s.find(',', i); if (j == std::string::npos) j = s.size(); in.push_back((unsigned)strtoul(s.substr(i, j - i).c_str(), 0, 10)); i = j + 1; } }
    size_t n = strtoull(A["R_N"].c_str(), 0, 10); in.resize(n + 1);
    int rc = dispatch(A["fn"], in, n, atoi(A["R_MODE"].c_str()), atoi(A["R_SUB"].c_str()));
    if (rc) return rc;
    printf(fails ? "REPLAY: postcondition violated on the real code\n" : "REPLAY: all postconditions hold on this input\n");
    return fails ? 1 : 0;
}
